"""Plugin rule module of tools/extract.py (loaded by `_load_rule_plugins`): rules needed by unit `casts`.

R130  `format!("{}", X)` -> `X.to_string()`
"""


def register(RULES, RULE_DOC, ex):
    lex, match_close, _replace_spans = ex.lex, ex.match_close, ex._replace_spans

    def rule_R130(src, stats):
        """`format!("{}", X)` -> `X.to_string()`  (`(X).to_string()` when X is not a plain path/field/call chain).  Applies only when the
        macro has exactly two arguments at depth 0, the first is the ordinary string literal `"{}"` (one `{}` placeholder, nothing else in
        the literal: no text, no width/precision/`:?`/named or positional argument) and X is an expression without a comma at depth 0.
        Meaning: `format!("{}", X)` builds a String by calling `<T as Display>::fmt(&X, ..)` once into an empty String; std DEFINES
        `<T: Display> ToString::to_string(&X)` as exactly that (`"equivalent to format!("{}", self)"`, only the initial capacity differs),
        so both forms yield the same text for every T: Display.  Verus has no model of `format!`/`fmt::Arguments`; `to_string` has vstd's
        blanket spec (`to_string_from_display_ensures`) or the unit's trusted inherent stub (`Number::to_string` -> `num_text`, unit render).
        Any other `format!` shape is left alone (and then fails to compile under Verus: undecided, never silently accepted)."""
        code = lex(src)
        spans = []
        i = 0
        while i < len(code) - 3:
            t = code[i]
            if (t.kind == "ident" and t.text == "format" and code[i + 1].text == "!" and code[i + 2].text == "("
                    and (i == 0 or code[i - 1].text not in (".", ":"))):
                e = match_close(code, i + 2)
                args = code[i + 3:e]
                # split at depth-0 commas
                d, commas = 0, []
                for k, a in enumerate(args):
                    if a.kind == "punct" and a.text in "([{":
                        d += 1
                    elif a.kind == "punct" and a.text in ")]}":
                        d -= 1
                    elif a.kind == "punct" and a.text == "," and d == 0:
                        commas.append(k)
                # allow one trailing comma
                if commas and commas[-1] == len(args) - 1:
                    args = args[:-1]
                    commas = commas[:-1]
                if (len(commas) == 1 and commas[0] == 1 and args[0].kind == "str" and args[0].text == '"{}"' and len(args) > 2):
                    x = args[2:]
                    xt = src[x[0].start:x[-1].end]
                    # a postfix chain (identifiers, literals, `.`, `::`, and bracketed groups) binds tighter than `.to_string()`;
                    # anything else (unary/binary operators, `as`, closures ..) is parenthesised
                    simple, d = True, 0
                    for a in x:
                        if a.kind == "punct" and a.text in "([{":
                            d += 1
                        elif a.kind == "punct" and a.text in ")]}":
                            d -= 1
                        elif d == 0:
                            if a.kind == "punct" and a.text not in (".", ":"):
                                simple = False
                            if a.kind == "ident" and a.text in ("as", "if", "match", "move", "return", "break", "unsafe", "loop", "while", "for"):
                                simple = False
                    if x[0].kind == "punct" and x[0].text == "{":
                        simple = False
                    if x[0].kind == "num":
                        simple = False      # `1.to_string()` lexes as a float literal prefix
                    spans.append((t.start, code[e].end, ("%s.to_string()" if simple else "(%s).to_string()") % xt))
                    stats["R130"] = stats.get("R130", 0) + 1
                i = e + 1
                continue
            i += 1
        return _replace_spans(src, spans)

    RULES["R130"] = rule_R130
    RULE_DOC["R130"] = rule_R130.__doc__.strip()
