#!/usr/bin/env python3
"""Confirm a seeded change (patch + demo) in a scratch worktree, store it under /verif/seeded/<id>/, and run checks against it.
   seedtest.py confirm WT PROP N      -> verifies build/tests/demo in WT/MUT/N, copies to /verif/seeded/PROP-mN
   seedtest.py run SEEDID [PROP...] [--tier T]  -> applies seeded/SEEDID/patch.diff to /repo, runs ./check for the props, restores /repo
"""
import os, re, sys, json, subprocess, shutil
ROOT = os.path.dirname(os.path.dirname(os.path.abspath(__file__)))
REPO = "/repo"


def sh(cmd, cwd=None, timeout=3600):
    p = subprocess.run(cmd, shell=True, cwd=cwd, capture_output=True, text=True, timeout=timeout)
    return p.returncode, p.stdout + p.stderr


def test_counts(out):
    return re.findall(r"test result: (\w+)\. (\d+) passed; (\d+) failed", out)


def confirm(wt, prop, n):
    d = os.path.join(wt, "MUT", str(n))
    meta = json.load(open(os.path.join(d, "meta.json")))
    place = meta.get("demo_placement", "tests/seeded_demo_%s.rs" % n)
    if not place.endswith(".rs"):
        place = "tests/seeded_demo_%s.rs" % n
    demo_name = os.path.basename(place)[:-3]
    sh("git checkout -- . && git clean -fdq -e MUT -e target", cwd=wt)
    log = {}
    rc, out = sh("git apply %s" % os.path.join(d, "patch.diff"), cwd=wt)
    assert rc == 0, out
    rc, out = sh("cargo test --workspace --no-fail-fast --offline 2>&1", cwd=wt)
    log["suite_with_patch"] = test_counts(out)
    failed = sorted(set(re.findall(r"^test (\S+) \.\.\. FAILED", out, re.M)))
    log["suite_failed_tests"] = failed
    ok_suite = failed == ["functions::test_to_serde_json"]
    shutil.copy(os.path.join(d, "demo.rs"), os.path.join(wt, place))
    rc1, out1 = sh("cargo test --offline --test %s 2>&1" % demo_name, cwd=wt)
    log["demo_with_patch"] = test_counts(out1)
    sh("git apply -R %s" % os.path.join(d, "patch.diff"), cwd=wt)
    rc2, out2 = sh("cargo test --offline --test %s 2>&1" % demo_name, cwd=wt)
    log["demo_clean"] = test_counts(out2)
    os.remove(os.path.join(wt, place))
    sh("git checkout -- . && git clean -fdq -e MUT -e target", cwd=wt)
    ok = ok_suite and rc1 != 0 and rc2 == 0
    print(json.dumps(log))
    if not ok:
        print("NOT CONFIRMED", prop, n)
        return 1
    sid = "%s-m%s" % (prop, n)
    dst = os.path.join(ROOT, "seeded", sid)
    os.makedirs(dst, exist_ok=True)
    shutil.copy(os.path.join(d, "patch.diff"), dst)
    shutil.copy(os.path.join(d, "demo.rs"), dst)
    meta["property"] = prop
    meta["confirmed"] = log
    meta["confirmed_cmds"] = ["git apply patch.diff; cargo test --workspace --no-fail-fast --offline (only functions::test_to_serde_json fails, as on the clean tree)",
                              "cargo test --offline --test %s  -> fails with the patch, passes without" % demo_name]
    json.dump(meta, open(os.path.join(dst, "meta.json"), "w"), indent=1)
    print("CONFIRMED", sid)
    return 0


def run(sid, props, tier):
    """runs the checks on a scratch worktree of /repo with the patch applied (VERIF_REPO points the tools at it),
    so that /repo itself stays untouched while other work is going on"""
    d = os.path.join(ROOT, "seeded", sid)
    meta = json.load(open(os.path.join(d, "meta.json")))
    props = props or [meta["property"]]
    wt = "/tmp/mutrepo_%s" % sid
    sh("git -C %s worktree remove --force %s" % (REPO, wt))
    rc, out = sh("git -C %s worktree add -q --detach %s HEAD" % (REPO, wt))
    assert rc == 0, out
    results = {}
    try:
        rc, out = sh("git apply %s" % os.path.join(d, "patch.diff"), cwd=wt)
        if rc != 0:
            # the patch was made against an earlier HEAD of /repo (before later `fix:` commits): try a three-way merge
            rc, out = sh("git apply --3way %s" % os.path.join(d, "patch.diff"), cwd=wt)
        if rc != 0:
            meta.setdefault("check_results", {})["stale"] = "patch no longer applies to /repo HEAD %s" % sh("git -C %s rev-parse --short HEAD" % REPO)[1].strip()
            json.dump(meta, open(os.path.join(d, "meta.json"), "w"), indent=1)
            print(sid, "STALE: patch does not apply")
            return 3
        for p in props:
            rc, out = sh("VERIF_REPO=%s VERIF_WORK=%s ./check %s --tier %s" % (wt, os.path.join(ROOT, ".work", "mut_" + sid), p, tier), cwd=ROOT, timeout=7200)
            results[p] = {"rc": rc, "lines": [l for l in out.split("\n") if l.startswith(("VIOLATION", "KNOWN", "UNDECIDED", p))][:12]}
            print(sid, p, "rc=%d" % rc)
            for l in results[p]["lines"]:
                print("   ", l[:300])
    finally:
        sh("git -C %s worktree remove --force %s" % (REPO, wt))
    meta.setdefault("check_results", {}).update({"%s/%s" % (p, tier): r for p, r in results.items()})
    json.dump(meta, open(os.path.join(d, "meta.json"), "w"), indent=1)
    return 0


if __name__ == "__main__":
    if sys.argv[1] == "confirm":
        sys.exit(confirm(sys.argv[2], sys.argv[3], sys.argv[4]))
    if sys.argv[1] == "run":
        args = sys.argv[2:]
        tier = "quick"
        if "--tier" in args:
            i = args.index("--tier"); tier = args[i + 1]; del args[i:i + 2]
        sys.exit(run(args[0], args[1:], tier))
