#!/usr/bin/env python3
"""Engine V: generate a unit from /repo's working tree, run Verus on it, map every
diagnostic back to a *named obligation*  <unit>::<fn>::<kind>@<anchor text>."""
import os, re, sys, json, time, hashlib, subprocess, shutil
sys.path.insert(0, os.path.dirname(os.path.abspath(__file__)))
import extract
from rustlex import norm

ROOT = os.path.dirname(os.path.dirname(os.path.abspath(__file__)))
WORK = os.environ.get("VERIF_WORK") or os.path.join(ROOT, ".work")
CACHE = os.path.join(ROOT, ".cache", "verus")
PRELUDES = [os.path.join(ROOT, "verus", "prelude.rs"), os.path.join(ROOT, "verus", "shims.rs")]
RLIMIT = "30"
VERUS_ENV = dict(os.environ)

SEMANTIC_KINDS = {"postcondition", "precondition", "overflow", "bounds", "unwrap", "assert", "unreachable", "divzero"}


def verus_version():
    try:
        out = subprocess.run(["verus", "--version"], capture_output=True, text=True, timeout=60).stdout
        m = re.search(r"Version:\s*(\S+)", out)
        return m.group(1) if m else "unknown"
    except Exception:
        return "unavailable"


def classify(msg):
    m = msg.lower()
    # well-formedness errors of the generated file (not proof obligations): a loop or recursive function the proof script has no
    # `decreases` for, a definitional cycle. They mean "the script does not fit this code" -> compile-error -> undecided, never a failure
    if "must have a decreases clause" in m or "cyclic self-reference" in m or "decreases clause" in m and "must" in m:
        return None
    if "postcondition not satisfied" in m:
        return "postcondition"
    if "index in bounds" in m or "index out of bounds" in m:
        return "bounds"
    if "precondition not satisfied" in m or "precondition not met" in m:
        return "precondition"
    if "arithmetic underflow/overflow" in m or "overflow" in m and "possible" in m:
        return "overflow"
    if "division by zero" in m:
        return "divzero"
    if "index out of bounds" in m or "out of bounds" in m:
        return "bounds"
    if "invariant not satisfied" in m:
        return "invariant"
    if "decreases" in m or "termination" in m:
        return "decreases"
    if "assertion failed" in m or "assert" in m and "failed" in m:
        return "proofassert"
    if "resource limit" in m or "rlimit" in m or "timed out" in m:
        return "rlimit"
    if "recommend" in m:
        return "recommends"
    return None


def trusted_scan(gen, linemap):
    """list every assumption present in the generated file"""
    out = []
    lines = gen.split("\n")
    for i, ln in enumerate(lines):
        for pat, what in ((r"#\[verifier::external_body\]", "external_body"),
                          (r"\bassume_specification\b", "assume_specification"),
                          (r"\buninterp\s+spec\s+fn\b", "uninterpreted spec fn"),
                          (r"\bassume\s*\(", "assume"), (r"\badmit\s*\(", "admit"),
                          (r"exec_allows_no_decreases_clause", "no termination proof (exec_allows_no_decreases_clause)"),
                          (r"external_type_specification", "external_type_specification"),
                          (r"#\[verifier::external\]", "external")):
            if re.search(pat, ln):
                # name: next fn/struct name within 4 lines
                name = "?"
                for j in range(i, min(i + 6, len(lines))):
                    m = re.search(r"(?:fn|struct)\s+([A-Za-z_0-9]+)|assume_specification\s*(?:<[^>]*>)?\s*\[\s*([^\]]+)\]", lines[j])
                    if m:
                        name = (m.group(1) or m.group(2)).strip(); break
                org = linemap[i].get("origin") if i < len(linemap) and linemap[i] else "?"
                out.append("%s: %s (%s)" % (what, name, org))
    return sorted(set(out))


def run_unit(unit, canary=False, use_cache=True, log_air=False):
    unit_path = os.path.join(ROOT, "verus", "units", unit + ".vu")
    os.makedirs(WORK, exist_ok=True)
    os.makedirs(CACHE, exist_ok=True)
    res = {"unit": unit, "canary": canary, "status": None, "failures": [], "functions": [], "verified": 0, "errors": 0,
           "time_ms": 0, "smt_ms": 0, "rewrite_counts": {}, "trusted": [], "messages": [], "obligations": None}
    t0 = time.time()
    try:
        gen, linemap, info = extract.build(unit_path, PRELUDES, canary=canary)
    except extract.ExtractError as e:
        res["status"] = "extract-error"
        res["messages"].append(str(e))
        return res
    except Exception as e:  # lexer trouble on odd code: also "script no longer fits"
        res["status"] = "extract-error"
        res["messages"].append("extractor exception: %r" % (e,))
        return res
    res["functions"] = info["functions"]
    res["rewrite_counts"] = info["rewrite_counts"]
    res["extract_warnings"] = info.get("warnings", [])
    # only a lost proof-hint anchor makes a function's failures untrustworthy ("script misfit"); an annotation for a loop
    # that no longer exists, or a rewrite rule with nothing left to rewrite, has simply nothing to attach to: the remaining
    # (possibly loop-free) code is judged by Verus as it stands
    warned_fns = set(w["fn"] for w in res["extract_warnings"] if w.get("kind", "anchor") == "anchor")
    res["trusted"] = trusted_scan(gen, linemap)
    tag = unit + ("_canary" if canary else "")
    gen_path = os.path.join(WORK, tag + ".rs")
    open(gen_path, "w").write(gen)
    key = hashlib.sha256((gen + "|" + verus_version() + "|" + RLIMIT + "|air=%s" % log_air).encode()).hexdigest()
    cpath = os.path.join(CACHE, key + ".json")
    if use_cache and os.path.exists(cpath):
        c = json.load(open(cpath))
        c["cached"] = True
        return c
    cmd = ["verus", gen_path, "--output-json", "--time", "--error-format=json", "--rlimit", RLIMIT, "--multiple-errors", "5"]
    logdir = None
    if log_air:
        logdir = os.path.join(WORK, tag + ".vlog")
        shutil.rmtree(logdir, ignore_errors=True)
        cmd += ["--log", "air", "--log-dir", logdir]
    res["cmd"] = " ".join(cmd)
    try:
        p = subprocess.run(cmd, capture_output=True, text=True, timeout=900, cwd=WORK)
    except subprocess.TimeoutExpired:
        res["status"] = "tool-error"; res["messages"].append("verus timeout"); return res
    try:
        js = json.loads(p.stdout)
    except Exception:
        js = {}
    vr = js.get("verification-results", {})
    res["verified"] = vr.get("verified", 0)
    res["errors"] = vr.get("errors", 0)
    tm = js.get("times-ms", {})
    res["time_ms"] = tm.get("total", int((time.time() - t0) * 1000))
    res["smt_ms"] = (tm.get("smt", {}) or {}).get("total", 0) if isinstance(tm.get("smt"), dict) else 0
    hard = []
    for ln in p.stderr.split("\n"):
        ln = ln.strip()
        if not ln.startswith("{"):
            continue
        try:
            d = json.loads(ln)
        except Exception:
            continue
        if d.get("level") not in ("error",):
            continue
        msg = d.get("message", "")
        if msg.startswith("aborting due to"):
            continue
        kind = classify(msg)
        spans = d.get("spans", [])
        prim = next((s for s in spans if s.get("is_primary")), spans[0] if spans else None)
        if kind is None or prim is None:
            hard.append(msg + (" @%s:%d" % (prim["file_name"], prim["line_start"]) if prim else ""))
            if prim:
                gl0 = prim["line_start"] - 1
                m0 = linemap[gl0] if 0 <= gl0 < len(linemap) and linemap[gl0] else {}
                if m0.get("fn"):
                    res.setdefault("error_fns", [])
                    if m0["fn"] not in res["error_fns"]:
                        res["error_fns"].append(m0["fn"])
            continue
        gl = prim["line_start"] - 1
        meta = linemap[gl] if 0 <= gl < len(linemap) and linemap[gl] else {"origin": "?"}
        text = " ".join(t["text"][t["highlight_start"] - 1:t["highlight_end"] - 1] for t in prim.get("text", [])[:3])
        anchor = norm(text)[:120]
        # for postconditions the failed clause is a secondary span
        clause = None
        for s in spans:
            if not s.get("is_primary") and s.get("label") and "failed" in s["label"]:
                clause = norm(" ".join(t["text"][t["highlight_start"] - 1:t["highlight_end"] - 1] for t in s.get("text", [])[:3]))[:120]
                cm = linemap[s["line_start"] - 1] if s["line_start"] - 1 < len(linemap) else None
                if kind == "precondition" and cm and cm.get("origin") in ("prelude",) and meta.get("origin") == "code":
                    pass
        fn = meta.get("fn", "?")
        origin = meta.get("origin", "?")
        # refine kinds: a failed precondition of vx_unreachable/vx_assert/unwrap/index is named after what it guards
        k2 = kind
        if kind == "precondition":
            if "vx_unreachable" in text:
                k2 = "unreachable"
            elif "vx_assert" in text:
                k2 = "assert"
            elif re.search(r"\.\s*unwrap\s*\(\s*\)\s*$", text) or ".unwrap()" in text and "(" not in text.split(".unwrap()")[-1]:
                k2 = "unwrap"
            elif re.search(r"\[[^\]]*\]\s*$", text) or re.search(r"\[[^\]]*\.\.[^\]]*\]", text):
                k2 = "bounds"
        semantic = (k2 in SEMANTIC_KINDS) and origin == "code"
        if k2 == "postcondition":
            # a postcondition is a contract clause: semantic wherever the return point is, if the fn is extracted code
            semantic = meta.get("fn") is not None and origin in ("code", "spec") and not fn.startswith("lemma")
        misfit = fn in warned_fns   # the proof script lost an anchor/loop/rule in this function: "script no longer fits"
        if k2 == "rlimit":
            # the solver gave up within its resource limit: neither proved nor refuted -> undecided, never an alarm
            misfit = True
        if misfit:
            semantic = False
        name = "%s::%s::%s@%s" % (unit, fn, k2, clause if (k2 == "postcondition" and clause) else anchor)
        res["failures"].append({"name": name, "kind": k2, "class": "misfit" if misfit else ("semantic" if semantic else "auxiliary"), "fn": fn,
                                "tags": meta.get("tags", []), "message": msg, "origin": origin,
                                "src_file": meta.get("file"), "src_line": meta.get("line"), "gen_line": gl + 1,
                                "text": text[:300], "clause": clause, "rendered": d.get("rendered", "")[:3000]})
    if hard:
        res["status"] = "compile-error"
        res["messages"] += hard[:20]
    elif res["failures"]:
        res["status"] = "failed"
    elif vr.get("success") and res["errors"] == 0 and res["verified"] > 0:
        res["status"] = "proved"
    else:
        res["status"] = "tool-error"
        res["messages"].append("verus exit %s, no diagnostics parsed; stderr head: %s" % (p.returncode, p.stderr[:500]))
    if logdir and os.path.isdir(logdir):
        n = 0
        for f in os.listdir(logdir):
            if f.endswith(".air"):
                n += len(re.findall(r"^\s*\(assert\b", open(os.path.join(logdir, f), errors="replace").read(), re.M))
        res["obligations"] = n
        shutil.rmtree(logdir, ignore_errors=True)
    # de-duplicate failures by name
    if canary:
        sites = [i + 1 for i, ln in enumerate(gen.split("\n")) if "// CANARY" in ln]
        hit = set(f["gen_line"] for f in res["failures"] if f["kind"] == "proofassert")
        res["canary_sites"] = len(sites)
        res["canary_missed"] = ["%s (generated line %d)" % ((linemap[l - 1] or {}).get("fn", "?"), l) for l in sites if l not in hit]
    seen, uniq = set(), []
    for f in res["failures"]:
        if f["name"] not in seen:
            seen.add(f["name"]); uniq.append(f)
    res["failures"] = uniq
    res["wall_s"] = round(time.time() - t0, 2)
    if res["status"] in ("proved", "failed"):
        json.dump(res, open(cpath, "w"))
    return res


if __name__ == "__main__":
    import argparse
    ap = argparse.ArgumentParser()
    ap.add_argument("unit")
    ap.add_argument("--canary", action="store_true")
    ap.add_argument("--no-cache", action="store_true")
    ap.add_argument("--air", action="store_true")
    a = ap.parse_args()
    r = run_unit(a.unit, canary=a.canary, use_cache=not a.no_cache, log_air=a.air)
    for f in r["failures"]:
        print(f["class"], f["name"])
        print(f["rendered"])
    r2 = dict(r); r2["failures"] = [f["name"] for f in r["failures"]]
    print(json.dumps(r2, indent=1)[:3000])
