#!/usr/bin/env python3
"""Turns verifier results into the per-property verdict, the replay files and the evidence file."""
import os, re, sys, json, time, hashlib, subprocess, shutil
sys.path.insert(0, os.path.dirname(os.path.abspath(__file__)))
import verus_run, kani_run

ROOT = os.path.dirname(os.path.dirname(os.path.abspath(__file__)))
PLAN = os.path.join(ROOT, "plan.json")
KNOWN = os.path.join(ROOT, "known_findings.json")
# runs against a scratch copy of the repository (VERIF_REPO set: seeded changes, refactoring experiments) must not
# overwrite the evidence of /repo itself
EVID = os.path.join(ROOT, "evidence") if not os.environ.get("VERIF_REPO") else os.path.join(os.environ.get("VERIF_WORK") or os.path.join(ROOT, ".work"), "evidence_scratch")
REPLAYS = os.path.join(ROOT, "replays")


def load_known():
    if not os.path.exists(KNOWN):
        return []
    return json.load(open(KNOWN)).get("findings", [])


def known_match(prop, name, known):
    """an open finding suppresses exactly the obligations it lists (full name, or name prefix ending in '*')"""
    for k in known:
        if k.get("status") != "open" or k.get("property") != prop:
            continue
        for pat in k.get("obligations", []):
            if pat == name or (pat.endswith("*") and name.startswith(pat[:-1])):
                return k
    return None


def write_replay(prop, entry):
    os.makedirs(REPLAYS, exist_ok=True)
    h = hashlib.sha256(json.dumps(entry["obligation"], sort_keys=True).encode()).hexdigest()[:10]
    path = os.path.join(REPLAYS, "%s-%s.json" % (prop, h))
    json.dump(entry, open(path, "w"), indent=1)
    return path


def kani_playback(harness, cfg):
    """the verifier's counterexample replayed against the real code: Kani generates a #[test] with the concrete input
    values and `cargo kani playback` runs it natively (tools/kani_run.native_replay)"""
    try:
        r = kani_run.native_replay(harness, cfg)
    except Exception as e:
        return {"error": repr(e)}
    native = r.get("native_failed")
    note = None
    if cfg["harnesses"].get(harness, {}).get("failure_in_stub"):
        # the failing check lives in a #[kani::stub] replacement, which `cargo kani playback` does not apply:
        # the native run cannot reproduce it, so its outcome says nothing (the concrete input values are still reported)
        native = None
        note = "failure is raised inside a kani::stub replacement; native playback does not apply stubs, concrete values reported only"
    return {"concrete_playback_tests": [r["test"]] if r.get("test") else [], "native_replay_failed": native, "note": note,
            "native_output_tail": r.get("output", "")[-1500:]}


def decide(prop, tier, seed=0, use_cache=True, out=sys.stdout):
    t0 = time.time()
    plan = json.load(open(PLAN))
    if prop not in plan["properties"]:
        print("property %s is not claimed (see MANIFEST.json not_applicable)" % prop, file=out)
        return 2
    pp = plan["properties"][prop]
    cfg = kani_run.load_config()
    known = load_known()
    lines = []
    sem_fail, aux_fail, undecided_units = [], [], []
    ev_units, ev_kani = [], []
    obligations = discharged = 0
    trusted = set()
    fn_list = []
    # ---------------------------------------------------------------- engine V
    # the units (and their canary variants) are independent single-file Verus runs: four at a time
    from concurrent.futures import ThreadPoolExecutor
    pre = {}
    with ThreadPoolExecutor(max_workers=int(os.environ.get("VERIF_VERUS_JOBS", "4"))) as pool:
        futs = {}
        # `verus_support`: units proved for ANOTHER property whose contracts this property's argument composes (e.g. the text parser
        # for every function that accepts JSON text): they are run as well and EVERY failure in them counts, whatever its tags
        support = [u for u in pp.get("verus_support", []) if u not in pp.get("verus", [])]
        # closure: a unit that imports another one with `#! use` (assume/guarantee stubs generated from that unit's contracts) or that
        # restates its contracts by hand (`unit_deps` in plan.json, from the `[proved in unit X]` comments) depends on it
        def _deps(u):
            out = list(plan.get("unit_deps", {}).get(u, []))
            try:
                for ln in open(os.path.join(ROOT, "verus", "units", u + ".vu")):
                    m = re.match(r"#! use (\S+)", ln)
                    if m:
                        out.append(m.group(1))
            except OSError:
                pass
            return out
        todo = list(pp.get("verus", [])) + support
        while todo:
            for v in _deps(todo.pop()):
                if v not in pp.get("verus", []) and v not in support:
                    support.append(v); todo.append(v)
        for unit in pp.get("verus", []) + support:
            futs[(unit, False)] = pool.submit(verus_run.run_unit, unit, use_cache=use_cache, log_air=True)
            futs[(unit, True)] = pool.submit(verus_run.run_unit, unit, canary=True, use_cache=use_cache)
        for k, f in futs.items():
            pre[k] = f.result()
    for unit in pp.get("verus", []) + support:
        r = pre[(unit, False)]
        is_support = unit in support
        mine = [f for f in r["functions"] if prop in f["tags"] or is_support]
        ev = {"unit": unit, "role": "support (proved for another property, composed here; every failure counts)" if is_support else "own", "status": r["status"], "verus_queries_verified": r.get("verified"), "verus_queries_failed": r.get("errors"),
              "air_asserts": r.get("obligations"), "time_ms": r.get("time_ms"), "cached": r.get("cached", False),
              "functions_under_contract": ["%s::%s (src/%s:%s sha256 %s rules[%s])" % (unit, f["fn"], f["file"], f["line"], f["sha256"][:12], f["rules"]) for f in mine],
              "rewrite_counts": r.get("rewrite_counts"), "cmd": r.get("cmd"), "extract_warnings": r.get("extract_warnings", [])}
        fn_list += ev["functions_under_contract"]
        for t in r.get("trusted", []):
            trusted.add(t)
        if r["status"] in ("extract-error", "compile-error", "tool-error"):
            undecided_units.append((unit, r["status"], r.get("messages", []), r.get("error_fns")))
            ev["messages"] = r.get("messages", [])[:5]
        else:
            n_air = r.get("obligations") or r.get("verified") or 0
            any_tag_kinds = pp.get("kinds_any_tag", [])
            fails_here = [f for f in r["failures"] if is_support or (prop in f.get("tags", [])) or not f.get("tags") or f.get("kind") in any_tag_kinds]
            obligations += n_air
            discharged += max(0, n_air - len(fails_here))
            for f in fails_here:
                if f["class"] == "misfit":
                    # failure inside a function whose proof script lost an anchor / loop / rule: undecided, like a compile error
                    if not any(u[0] == unit and u[1] == "script-misfit" for u in undecided_units):
                        why = "; ".join(w["what"] for w in r.get("extract_warnings", [])[:3])
                        if f.get("kind") == "rlimit":
                            why = (why + "; " if why else "") + "resource limit exceeded in %s (solver gave up: neither proved nor refuted)" % f["fn"]
                        undecided_units.append((unit, "script-misfit", ["proof script no longer fits %s: %s" % (f["fn"], why)],
                                                sorted(set(x["fn"] for x in fails_here if x["class"] == "misfit"))))
                    continue
                (sem_fail if f["class"] == "semantic" else aux_fail).append(dict(f, engine="verus", unit=unit))
        # vacuity guard on every run: a second generated file carries `assert(false)` at the start of every contracted
        # function and loop body; each of them must FAIL (contradictory requires / invariants would make them pass)
        if r["status"] in ("proved", "failed"):
            c = pre[(unit, True)]
            ev["canary_sites"] = c.get("canary_sites"); ev["canary_missed"] = c.get("canary_missed")
            if c.get("canary_missed"):
                undecided_units.append((unit, "vacuity-canary", ["canary assert(false) verified (contradictory requires/invariant?) at: %s" % c["canary_missed"]], None))
        ev_units.append(ev)
    # ---------------------------------------------------------------- engine K / Kb
    hs = [h for h, i in cfg["harnesses"].items() if prop in i.get("props", []) and i.get("enabled", True) and (i.get("tier", "quick") == "quick" or tier == "thorough")]
    kres = {"harnesses": {}, "status": "success", "messages": []}
    if hs:
        kres = kani_run.run_harnesses(hs, cfg, use_cache=use_cache)
    k_tool_errors = []
    bounded_clean = []
    for h in hs:
        info = cfg["harnesses"][h]
        r = kres["harnesses"].get(h)
        if r is None or r["status"] not in ("success", "failed"):
            k_tool_errors.append(h)
            ev_kani.append({"harness": h, "level": info.get("level"), "status": (r or {}).get("status", "no-result")})
            continue
        e = {"harness": h, "level": info.get("level"), "bound": info.get("bound"), "what": info.get("what"), "status": r["status"],
             "checks": r.get("checks_total"), "checks_failed": r.get("checks_failed"), "time_s": r.get("time_s"),
             "covers": r.get("covers_total"), "cached": r.get("cached", False)}
        ev_kani.append(e)
        if r.get("covers_unsat"):
            undecided_units.append(("kani:" + h, "vacuity-cover", r["covers_unsat"], None))
        if info.get("level") == "complete":
            obligations += r.get("checks_total") or 0
            discharged += (r.get("checks_total") or 0) - (r.get("checks_failed") or 0)
        elif r["status"] == "success":
            bounded_clean.append(h)
        for fc in r.get("failed_checks", []):
            loc = "%s:%s" % (os.path.basename(fc["file"]), fc["fn"].split("::")[-1])
            name = "kani::%s::%s@%s" % (h, re.sub(r"\s+", " ", fc["desc"])[:140], loc)
            sem_fail.append({"name": name, "kind": "kani-check", "class": "semantic", "engine": "kani", "harness": h,
                             "message": fc["desc"], "src_file": fc["file"], "src_line": fc["line"], "fn": fc["fn"], "level": info.get("level")})
        if r["status"] == "failed" and not r.get("failed_checks"):
            sem_fail.append({"name": "kani::%s::verification-failed" % h, "kind": "kani-check", "class": "semantic", "engine": "kani", "harness": h,
                             "message": "VERIFICATION FAILED (no check list parsed)", "level": info.get("level")})
    # ---------------------------------------------------------------- verdict
    violations, findings = [], []
    seen = set()
    for f in sem_fail:
        if f["name"] in seen:
            continue
        seen.add(f["name"])
        k = known_match(prop, f["name"], known)
        if k:
            findings.append((f, k))
        else:
            violations.append(f)
    rc = 0
    downgrade = []
    twin_names = [h for h, i in cfg["harnesses"].items() if prop in i.get("props", []) and i.get("level") != "complete" and i.get("enabled", True)]
    need_twins = bool(violations and any(v["engine"] == "verus" for v in violations)) or bool(aux_fail) or any(u[1] in ("extract-error", "compile-error", "tool-error", "script-misfit") for u in undecided_units)
    twin_res = None
    if need_twins and twin_names:
        # functions the trouble points at: run the twins that exercise them (all twins if none is that specific)
        affected = set()
        for u in undecided_units:
            for f in (u[3] if len(u) > 3 and u[3] else []):
                affected.add(f.split("::")[-1])
        for v in violations + aux_fail:
            if v.get("engine") == "verus" and v.get("fn"):
                affected.add(v["fn"].split("::")[-1])
        relevant = [h for h in twin_names if affected & set(cfg["harnesses"][h].get("covers", []))]
        if relevant:
            twin_names = relevant
        run_now = [h for h in twin_names if h not in kres["harnesses"]]
        if run_now:
            # the quick tier must stay well under 15 minutes in total: the fallback gets what is left of a 6 minute budget
            budget = 3000 if tier == "thorough" else max(120, int(360 - (time.time() - t0)))
            twin_res = kani_run.run_harnesses(run_now, cfg, use_cache=use_cache, timeout=budget)
            for h in run_now:
                r = twin_res["harnesses"].get(h)
                if not r:
                    continue
                ev_kani.append({"harness": h, "level": cfg["harnesses"][h].get("level"), "bound": cfg["harnesses"][h].get("bound"),
                                "status": r["status"], "checks": r.get("checks_total"), "checks_failed": r.get("checks_failed"), "role": "twin (counterexample search)"})
                for fc in r.get("failed_checks", []):
                    loc = "%s:%s" % (os.path.basename(fc["file"]), fc["fn"].split("::")[-1])
                    name = "kani::%s::%s@%s" % (h, re.sub(r"\s+", " ", fc["desc"])[:140], loc)
                    if name in seen or known_match(prop, name, known):
                        continue
                    seen.add(name)
                    violations.append({"name": name, "kind": "kani-check", "class": "semantic", "engine": "kani", "harness": h, "message": fc["desc"],
                                       "src_file": fc["file"], "src_line": fc["line"], "fn": fc["fn"], "level": cfg["harnesses"][h].get("level")})
    have_kani_cex = any(v["engine"] == "kani" for v in violations)
    vouching = [h for h in twin_names if not cfg["harnesses"][h].get("expected")]   # harnesses kept to report a known finding cannot vouch
    twin_ok = bool(vouching) and all(((twin_res or {}).get("harnesses", {}).get(h) or kres["harnesses"].get(h) or {}).get("status") == "success" for h in vouching)
    # functions exercised by twin harnesses that succeeded on this tree
    covered = set()
    for h in twin_names:
        st = ((twin_res or {}).get("harnesses", {}).get(h) or kres["harnesses"].get(h) or {}).get("status")
        if st == "success":
            covered |= set(cfg["harnesses"][h].get("covers", []))
    # auxiliary-only failures: excused only when the function is exercised by a clean twin
    # an invariant / termination / proof-step obligation that is discharged on the unchanged tree and now fails (the code
    # still fits the proof script syntactically) is reported: the brief's minimum bar for a violation. Bounded twins can
    # add a counterexample but cannot excuse it (they are too small to vouch for all inputs).
    if aux_fail:
        for a in aux_fail:
            if a["name"] not in seen and not known_match(prop, a["name"], known):
                seen.add(a["name"])
                violations.append(dict(a, note="obligation (invariant/termination/proof step) that is discharged on the unchanged tree now fails"))
    for f, k in findings:
        lines.append("KNOWN-FINDING: property=%s %s [%s]" % (prop, k.get("what_fails", ""), f["name"]))
    replays, spurious = {}, []
    for v in violations:
        entry = {"property": prop, "obligation": v["name"], "engine": v["engine"], "kind": v.get("kind"), "message": v.get("message"),
                 "source": {"file": v.get("src_file"), "line": v.get("src_line"), "fn": v.get("fn"), "text": v.get("text")},
                 "verifier_output": v.get("rendered") or v.get("message"), "note": v.get("note"),
                 "repo_head": subprocess.run(["git", "-C", kani_run.REPO, "rev-parse", "HEAD"], capture_output=True, text=True).stdout.strip(),
                 "replay_cmd": "./check replay <this file>"}
        suffix = ""
        if v["engine"] == "kani":
            pb = replays.get(v["harness"])
            if pb is None:
                # native replay costs a build + a verification run + a native test build (about 4-5 minutes): one per check in the quick tier,
                # and none when the verification itself already took 7 minutes
                if tier == "quick" and (len([x for x in replays.values() if not x.get("skipped")]) >= 1 or time.time() - t0 > 420):
                    pb = {"skipped": "replay budget of the quick tier used up; run the thorough tier or ./check replay"}
                else:
                    pb = kani_playback(v["harness"], cfg)
                replays[v["harness"]] = pb
            entry["counterexample"] = pb
            entry["harness"] = v["harness"]
            if pb and pb.get("native_replay_failed") is False and re.search(r"no_text|must_not_run|_stub\b", str(v.get("fn", "")) + " " + str(v.get("name", ""))):
                # the failed check sits inside a kani::stub replacement (not applied by native playback): keep the violation
                pb = dict(pb, native_replay_failed=None, note="failure raised inside a kani::stub replacement; native playback does not apply stubs")
                entry["counterexample"] = pb
            if pb and pb.get("native_replay_failed") is False:
                # CBMC's counterexample does not reproduce on the real code (spurious): not a violation
                downgrade.append("kani harness %s: counterexample did not reproduce natively, discarded as spurious (%s)" % (v["harness"], v["name"]))
                spurious.append(v)
                continue
            if not pb or not pb.get("concrete_playback_tests") or pb.get("native_replay_failed") is None:
                suffix = " no-failing-input-found"
        else:
            entry["unit"] = v.get("unit")
            cex = next((x for x in violations if x["engine"] == "kani"), None)
            if cex:
                entry["counterexample_from_twin"] = cex["name"]
            else:
                suffix = " no-failing-input-found"
        path = write_replay(prop, entry)
        lines.append("VIOLATION property=%s replay=%s%s" % (prop, path, suffix))
        rc = 1
    if rc == 0:
        # an undecided Verus unit is excused only if every function its errors point at is exercised by a twin that succeeded
        covered = set()
        for h in twin_names:
            st = ((twin_res or {}).get("harnesses", {}).get(h) or kres["harnesses"].get(h) or {}).get("status")
            if st == "success":
                covered |= set(cfg["harnesses"][h].get("covers", []))

        def excused(u):
            if u[1] not in ("extract-error", "compile-error", "tool-error", "script-misfit") or not twin_ok:
                return False
            fns = u[3] if len(u) > 3 else None
            if not fns:
                return False
            return all(f.split("::")[-1] in covered for f in fns)
        hard = [u for u in undecided_units if not excused(u)]
        soft = [u for u in undecided_units if u not in hard]
        for u in soft:
            downgrade.append("unit %s not verifiable on this tree (%s: %s); bounded twin harnesses clean (%s)" % (u[0], u[1], "; ".join(map(str, u[2]))[:300], ", ".join(twin_names)))
        if hard or k_tool_errors or kres.get("status") in ("tool-error", "timeout", "inject-error"):
            rc = 2
            for u in hard:
                lines.append("UNDECIDED property=%s unit=%s reason=%s %s" % (prop, u[0], u[1], "; ".join(map(str, u[2]))[:400]))
            for h in k_tool_errors:
                lines.append("UNDECIDED property=%s kani harness %s gave no result" % (prop, h))
            for m in kres.get("messages", [])[:5]:
                lines.append("  kani: %s" % m)
    for ln in lines:
        print(ln, file=out)
    # ---------------------------------------------------------------- evidence
    wall = round(time.time() - t0, 2)
    samples = []
    for e in ev_units:
        samples += e["functions_under_contract"][:3]
    samples += ["kani harness %s: %s checks, %s" % (e["harness"], e.get("checks"), e.get("what") or "") for e in ev_kani[:6]]
    level = pp.get("level", "proof")
    # obligations matched by an OPEN known finding are reported separately: they are neither claimed nor discharged
    n_known = len(findings)
    cov = {
        "obligations": max(0, obligations - n_known), "discharged": min(discharged, max(0, obligations - n_known)),
        "undischarged_known_finding_obligations": n_known,
        "checker_cmd": "; ".join(filter(None, [e.get("cmd") for e in ev_units] + [kres.get("cmd")])) or "n/a",
        "trusted_base": sorted(trusted) + plan.get("trusted_base_common", []) + pp.get("trusted_base", []),
        "samples": samples or ["(no obligations)"],
        "explanation": pp.get("explanation", ""),
        "functions_under_contract": fn_list,
        "verus_units": ev_units, "kani_harnesses": ev_kani,
        "bounded_stand_ins_not_counted_as_proved": [e for e in ev_kani if e.get("level") != "complete"],
        "known_findings_reported": [f["name"] for f, _ in findings],
        "violations_reported": [v["name"] for v in violations if v not in spurious],
        "downgrades": downgrade,
        "undecided": ["%s: %s" % (u[0], u[1]) for u in undecided_units],
        "counting_rule": "obligations = AIR assert statements in the Verus queries of the units of this property (measured from --log air) + CBMC checks of the complete (loop-free, full-domain) Kani harnesses; bounded harnesses are listed separately and not counted",
        "back_ends": "Verus 0.2026.09.13 / Z3 (bundled); Kani 0.68 / CBMC 6.11 / CaDiCaL, kissat for the int/float order harnesses",
        "verifier_time_s": round(sum((e.get("time_ms") or 0) for e in ev_units) / 1000.0 + sum((e.get("time_s") or 0) for e in ev_kani), 1),
        "verifier_time_note": "sum of the verifiers' own reported times for the units/harnesses of this property (taken from the result cache when the generated file / harness inputs are unchanged: see 'cached'); wall_s is the wall time of this invocation",
        "exit_code": rc,
    }
    evidence = {"property_id": prop, "tier": tier, "seed": seed, "level": level, "coverage": cov,
                "assumptions": plan.get("assumptions_common", []) + pp.get("assumptions", []),
                "wall_s": wall, "violations": len([v for v in violations if v not in spurious])}
    os.makedirs(EVID, exist_ok=True)
    json.dump(evidence, open(os.path.join(EVID, prop + ".json"), "w"), indent=1)
    print("%s tier=%s exit=%d obligations=%d discharged=%d verus_units=%d kani_harnesses=%d wall=%.1fs" % (
        prop, tier, rc, obligations, discharged, len(ev_units), len(ev_kani), wall), file=out)
    return rc


def replay(path, out=sys.stdout):
    e = json.load(open(path))
    prop = e["property"]
    print("replaying %s for %s (engine %s)" % (e["obligation"], prop, e["engine"]), file=out)
    cfg = kani_run.load_config()
    if e["engine"] == "kani":
        r = kani_run.run_harnesses([e["harness"]], cfg, use_cache=False, playback=True)
        hr = r["harnesses"].get(e["harness"], {})
        print(json.dumps({"status": hr.get("status"), "failed_checks": hr.get("failed_checks")}, indent=1), file=out)
        tests = re.findall(r"(#\[test\]\s*\nfn kani_concrete_playback[\s\S]*?\n\})", hr.get("playback_log", ""))
        for t in tests[:2]:
            print(t, file=out)
        return 1 if hr.get("status") == "failed" else 0
    r = verus_run.run_unit(e["unit"], use_cache=False)
    hit = [f for f in r["failures"] if f["name"] == e["obligation"]]
    for f in hit:
        print(f["rendered"], file=out)
    print("obligation %s" % ("still fails" if hit else "is discharged on the current tree"), file=out)
    return 1 if hit else 0


def setup(out=sys.stdout):
    ok = True
    import extract
    # tokenizer / rule self-tests on fixed inputs
    st = {k: 0 for k in ["R0", "R1", "R2", "R3", "R4", "R5", "R6", "R7", "R8", "R9", "R10"]}
    t = extract.rule_R1("fn f(){ for i in 0..n { if a { continue; } x += 1; } }", st)
    ok &= "while i < vx_hi1" in t and "{ i += 1; continue; }" in t
    t = extract.rule_R8("fn f(){ matches!(*v, A | B) }", st)
    ok &= "match *v { A | B => true, _ => false }" in t
    t = extract.rule_R7("fn f(){ assert!(len > 0); unreachable!(\"x\") }", st)
    ok &= "vx_assert(len > 0)" in t and "vx_unreachable()" in t
    print("extractor self-test: %s" % ("ok" if ok else "FAILED"), file=out)
    v = verus_run.verus_version()
    print("verus: %s" % v, file=out)
    ok &= v not in ("unknown", "unavailable")
    try:
        kv = subprocess.run(["cargo", "kani", "--version"], capture_output=True, text=True, timeout=120,
                            env={k: v for k, v in os.environ.items() if k != "RUSTUP_TOOLCHAIN"}).stdout.strip()
    except Exception as e:
        kv = "unavailable (%r)" % e
    print("kani: %s" % kv, file=out)
    ok &= "kani" in kv.lower() or "cbmc" in kv.lower() or bool(re.search(r"\d+\.\d+", kv))
    return 0 if ok else 2


def main(argv):
    if argv and argv[0] == "--setup":
        return setup()
    if argv and argv[0] == "replay":
        return replay(argv[1])
    import argparse
    ap = argparse.ArgumentParser()
    ap.add_argument("prop")
    ap.add_argument("--tier", default=os.environ.get("VERIF_TIER", "quick"), choices=["quick", "thorough"])
    ap.add_argument("--no-cache", action="store_true")
    ap.add_argument("--replay")
    a = ap.parse_args(argv)
    if a.replay:
        return replay(a.replay)
    try:
        seed = int(os.environ.get("VERIF_SEED", "0"))
    except ValueError:
        seed = 0
    return decide(a.prop, a.tier, seed=seed, use_cache=not a.no_cache)


if __name__ == "__main__":
    sys.exit(main(sys.argv[1:]))
