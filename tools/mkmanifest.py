#!/usr/bin/env python3
"""Regenerates MANIFEST.json from plan.json (claimed properties) and na.json (not applicable)."""
import json, os
ROOT = os.path.dirname(os.path.dirname(os.path.abspath(__file__)))
plan = json.load(open(os.path.join(ROOT, "plan.json")))
na = json.load(open(os.path.join(ROOT, "na.json")))
import sys
sys.path.insert(0, os.path.join(ROOT, "tools"))
import kani_run
cfg = kani_run.load_config()
ids = [json.loads(l)["id"] for l in open(os.path.join(ROOT, "properties.jsonl"))]
checks = []
for pid in ids:
    if pid not in plan["properties"] or plan["properties"][pid].get("hold"):
        continue
    pp = plan["properties"][pid]
    hs = [h for h, i in cfg["harnesses"].items() if pid in i.get("props", []) and i.get("enabled", True)]
    complete = [h for h in hs if cfg["harnesses"][h].get("level") == "complete"]
    bounded = [h for h in hs if cfg["harnesses"][h].get("level") != "complete"]
    tech = []
    if pp.get("verus"):
        tech.append("Verus contracts (requires/ensures/invariants) on functions extracted mechanically from /repo: units " + ", ".join(pp["verus"]))
    if pp.get("verus_support"):
        tech.append("supporting units whose contracts the argument composes, re-verified in this check (plus every unit these import with `#! use` / plan.json unit_deps): " + ", ".join(pp["verus_support"]))
    if complete:
        tech.append("Kani loop-free full-domain contract harnesses (complete): " + ", ".join(complete))
    if bounded:
        tech.append("bounded Kani harnesses as stand-in / counterexample search (not counted as proved): " + ", ".join(bounded))
    checks.append({
        "property_id": pid,
        "quick_cmd": "./check %s --tier quick" % pid,
        "thorough_cmd": "./check %s --tier thorough" % pid,
        "evidence_file": "evidence/%s.json" % pid,
        "replay_cmd_template": "./check replay {path}",
        "engine": "verus+kani" if pp.get("verus") and hs else ("verus" if pp.get("verus") else "kani"),
        "level_claimed": {"category": pp.get("level", "proof"), "text": pp.get("claim", pp.get("explanation", "")), "design_ref": pp.get("design_ref", "DESIGN.md section 5")},
        "level_note": "; ".join(pp.get("assumptions", []) + ["common: " + "; ".join(plan["assumptions_common"])]),
        "technique": "contract-based deductive verification: " + "; ".join(tech),
    })
m = {
    "version": 1,
    "setup_cmd": "./check --setup",
    "hooks": {
        "guard": "kani",
        "enable": "no hook is committed to /repo: each check copies /repo's working tree to a scratch directory and mechanically appends `#[cfg(kani)] mod verif_kani_*;` child modules and `#[cfg_attr(kani, kani::requires/ensures(..))]` attribute lines there; Verus runs on function text extracted from /repo on every run",
        "baseline_off_cmd": "cd /repo && cargo test --workspace --no-fail-fast --offline",
        "source_commits": [],
        "add_only": True,
    },
    "engines": [
        {"name": "V", "path": "tools/verus_run.py", "serves_properties": [p for p in ids if p in plan["properties"] and plan["properties"][p].get("verus") and not plan["properties"][p].get("hold")],
         "kind_free_text": "Verus 0.2026.09.13 on mechanically extracted function text + sidecar contracts (verus/units/*.vu), unbounded proofs"},
        {"name": "K", "path": "tools/kani_run.py", "serves_properties": sorted(set(p for i in cfg["harnesses"].values() for p in i.get("props", []))),
         "kind_free_text": "Kani 0.68 harnesses injected into a scratch copy of /repo: loop-free full-domain harnesses are complete proofs, unwound ones are bounded stand-ins"},
    ],
    "checks": checks,
    "not_applicable": [x for x in na if x["property_id"] not in plan["properties"] or plan["properties"][x["property_id"]].get("hold")],
    "notes": "Exit codes: 0 held (KNOWN-FINDING lines possible), 1 VIOLATION, 2 undecided/tool failure. Genuine defects repaired by `fix:` commits in /repo are recorded in known_findings.json as fixed entries. See DESIGN.md.",
}
json.dump(m, open(os.path.join(ROOT, "MANIFEST.json"), "w"), indent=1)
print("MANIFEST.json: %d checks, %d not applicable" % (len(checks), len(m["not_applicable"])))
