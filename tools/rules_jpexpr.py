"""Plugin rule module of tools/extract.py: rule needed by unit `jpexpr`.

R121  `fn NAME(` -> `fn NAME_real(` on the extracted function itself (signature only, body untouched)
"""
import re


def register(RULES, RULE_DOC, ex):
    def rule_R121(src, stats):
        """the extracted function `fn NAME(..)` is emitted as `fn NAME_real(..)` (only the name in its own signature changes; body, parameters and
        result are copied verbatim).  Needed when an imported unit (`#! use U`) declares a hand-written FREE-function stand-in `fn NAME` in a raw
        section (R93 `without=` only drops stubs inside `impl` blocks and generated stubs): the real NAME is then proved side by side with the
        stand-in under the name NAME_real.  Sound because no call site is rewritten: callers inside the generated file keep calling the stand-in
        with ITS contract; the renamed function is only a proof subject.  Used for predicate_or_paths (unit jpexpr; stand-in in unit jpgram)."""
        m = re.search(r"\bfn\s+([A-Za-z_]\w*)\s*(?=[(<])", src)
        if not m:
            return src
        stats["R121"] = stats.get("R121", 0) + 1
        return src[:m.start(1)] + m.group(1) + "_real" + src[m.end(1):]

    RULES["R121"] = rule_R121
    RULE_DOC["R121"] = rule_R121.__doc__.strip()
