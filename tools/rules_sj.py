"""Plugin rule module of tools/extract.py (loaded by `_load_rule_plugins`): rules needed by unit `sj` (serde_json bridge, C19).

R140  `RECV.into()` -> `From::from(RECV)`
R141  `TYPE::from(ARGS)` -> `<TYPE as From<_>>::from(ARGS)`
"""


def register(RULES, RULE_DOC, ex):
    lex, match_close, _replace_spans = ex.lex, ex.match_close, ex._replace_spans

    def _match_open(code, j):
        """index of the bracket that opens the group closed by code[j]"""
        close, opn = code[j].text, {")": "(", "]": "[", "}": "{"}[code[j].text]
        d = 0
        while j >= 0:
            t = code[j]
            if t.kind == "punct" and t.text == close:
                d += 1
            elif t.kind == "punct" and t.text == opn:
                d -= 1
                if d == 0:
                    return j
            j -= 1
        return None

    def rule_R140(src, stats):
        """`RECV.into()` -> `From::from(RECV)`, RECV = the postfix chain in front of `.into()` (identifiers, literals-free paths `a::b`,
        field/method selections `.x` / `.f(..)`, index `[..]`, `?`, or one parenthesised group `( .. )`; a leading unary `&`/`*`/`-`/`!`
        is NOT part of the receiver: a method call binds tighter).  Meaning: std defines the only impl of `Into` a crate can reach for
        its own conversions, `impl<T, U: From<T>> Into<U> for T { fn into(self) -> U { U::from(self) } }`, so `x.into()` IS
        `<U as From<T>>::from(x)`; written as `From::from(x)` the target type U is inferred from the context exactly as for `.into()`
        (same expected type, same argument type, hence the same impl).  Why: `Into::into` is an external std function for Verus, so a
        conversion that recurses through `.into()` (`impl From<Value> for JsonValue`: `vals.push(val.into())`) is invisible to the
        termination check and could use its own contract circularly; the explicit call is checked as ordinary recursion (`decreases`).
        `.into()` with arguments, `.into_iter()` etc. are other methods and are left alone.  A receiver the scan does not understand
        (macro call, closure, `as` cast, block) is left unrewritten (then the unit fails to compile or to prove termination: undecided,
        never silently accepted)."""
        code = lex(src)
        spans = []
        n = 0
        for i in range(1, len(code) - 3):
            if not (code[i].kind == "ident" and code[i].text == "into" and code[i - 1].text == "." and code[i + 1].text == "("
                    and code[i + 2].text == ")"):
                continue
            # scan the receiver backwards from the `.` in front of `into`
            j = i - 2
            ok = True
            while True:
                if j < 0:
                    ok = False
                    break
                t = code[j]
                if t.kind == "punct" and t.text in (")", "]"):
                    o = _match_open(code, j)
                    if o is None:
                        ok = False
                        break
                    j = o - 1
                    # `f(..)` / `x[..]`: the callee / indexed expression continues the chain; a bare `( .. )` group ends it
                    if j >= 0 and (code[j].kind == "ident" or (code[j].kind == "punct" and code[j].text in (")", "]", "?"))):
                        continue
                    start = o
                    break
                if t.kind == "punct" and t.text == "?":
                    j -= 1
                    continue
                if t.kind == "ident" and t.text not in ("as", "return", "break", "in", "if", "else", "match", "move", "mut", "let"):
                    # identifier: goes on with `.` or `::` in front of it
                    if j >= 1 and code[j - 1].kind == "punct" and code[j - 1].text == ".":
                        j -= 2
                        continue
                    if j >= 2 and code[j - 1].text == ":" and code[j - 2].text == ":":
                        j -= 3
                        continue
                    start = j
                    break
                ok = False
                break
            if not ok:
                continue
            # not a float literal / `as` cast in front of the chain
            if start >= 1 and code[start - 1].kind == "ident" and code[start - 1].text == "as":
                continue
            recv = src[code[start].start:code[i - 2].end]
            spans.append((code[start].start, code[i + 2].end, "From::from(" + recv + ")"))
            n += 1
        if not spans:
            return src
        # nested receivers (`a.into().b.into()`) do not occur in one pass: keep outermost, drop spans contained in another
        spans.sort()
        keep = []
        for s in spans:
            if keep and s[0] < keep[-1][1]:
                continue
            keep.append(s)
        stats["R140"] = stats.get("R140", 0) + len(keep)
        return _replace_spans(src, keep)

    def rule_R141(src, stats):
        """`TYPE::from(ARGS)` -> `<TYPE as From<_>>::from(ARGS)`, TYPE = a plain path `a::b::C` without generic arguments (anything else,
        e.g. `Vec::<u8>::from(..)` or `<T>::from(..)`, is left alone; the trait path `From::from(..)` itself is not a TYPE).  Meaning: for a
        type without an inherent associated function called `from` the path call `TYPE::from(x)` resolves to the `from` of a trait in
        scope, and `From` is the only prelude trait with that method: it IS `<TYPE as From<_>>::from(x)`, the argument type selecting the
        impl in both spellings.  (If TYPE had an inherent `from`, the rewritten text would call another function; for the types this is
        applied to -- serde_json::Number, which only has `from_f64`, `from_i128`, .. -- there is none.  A wrong guess cannot prove
        anything new: the call then needs a `From` impl that does not exist and the unit does not compile, i.e. is undecided.)  Why: unit
        sj declares a local shim of the trait `From` carrying the contracts; std's reflexive `impl<T> From<T> for T` stays visible to
        method lookup, so the unqualified `TYPE::from` is ambiguous (E0034) between the shim and std's trait; naming the trait decides."""
        code = lex(src)
        spans = []
        for i in range(3, len(code) - 1):
            if not (code[i].kind == "ident" and code[i].text == "from" and code[i + 1].text == "("
                    and code[i - 1].text == ":" and code[i - 2].text == ":" and code[i - 3].kind == "ident"):
                continue
            j = i - 3
            while j >= 3 and code[j - 1].text == ":" and code[j - 2].text == ":" and code[j - 3].kind == "ident":
                j -= 3
            if j >= 1 and code[j - 1].kind == "punct" and code[j - 1].text in (":", ">", "<", "."):
                continue        # generic arguments / qualified path / method chain in front: not a plain type path
            path = src[code[j].start:code[i - 3].end]
            if path in ("From", "std::convert::From", "core::convert::From"):
                continue
            spans.append((code[j].start, code[i].end, "<" + path + " as From<_>>::from"))
        if not spans:
            return src
        stats["R141"] = stats.get("R141", 0) + len(spans)
        return _replace_spans(src, spans)

    RULES["R140"] = rule_R140
    RULES["R141"] = rule_R141
    RULE_DOC["R141"] = rule_R141.__doc__.strip()
    RULE_DOC["R140"] = rule_R140.__doc__.strip()
