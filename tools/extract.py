#!/usr/bin/env python3
"""Mechanical extraction of /repo functions into a single Verus file.

A *unit* (verus/units/<name>.vu) lists the items to copy out of /repo/src, the
contract text to splice at syntactic positions, and verbatim Verus text (spec
functions, lemmas, stubs of callees).  Everything between the spliced lines is the
token text of /repo, modified only by the named rewrite rules below.

Unit file directives (a line starting with `#!`):

  #! unit NAME
  #! raw                                   verbatim Verus text until the next directive
  #! feature NAME                           emit crate attribute #![feature(NAME)] (e.g. allocator_api, to name std allocator-generic types in trusted specs)
  #! consts FILE NAME...                    copy `const` items (R0 applied)
  #! item FILE NAME                         copy a struct/enum/type item (R0 applied, derives dropped)
  #! fn FILE [Type::]name key=val...        copy a function; keys: tags=C05,C07 rules=R1,R3 ret=r
                                            attrs=<verus attrs, `;`-separated> vis=pub|keep
    #!! spec                                requires/ensures/decreases text for the signature
    #!! loop N                              invariant/decreases text for the N-th loop (1-based, source order)
    #!! before N `stmt text`                proof text inserted before the N-th occurrence of the statement
    #!! after N `stmt text`                 proof text inserted after it
    #!! body_start                          proof text inserted right after the opening brace
"""
import os, re, sys, json, hashlib
sys.path.insert(0, os.path.dirname(os.path.abspath(__file__)))
from rustlex import lex, find_items, match_close, norm, Tok

REPO_SRC = os.environ.get("VERIF_REPO", "/repo") + "/src"


class ExtractError(Exception):
    """lost anchor / missing item / inapplicable rule: the proof script no longer fits the code"""


# --------------------------------------------------------------------------- rewrite rules

def _toks(src):
    return lex(src)


def _replace_spans(src, spans):
    """spans: list of (start, end, replacement), non-overlapping"""
    out, pos = [], 0
    for s, e, r in sorted(spans):
        out.append(src[pos:s]); out.append(r); pos = e
    out.append(src[pos:])
    return "".join(out)


def rule_R0(src, stats):
    """drop attributes and doc comments, pub(crate)/pub(super) -> pub"""
    toks = lex(src, keep_trivia=True)
    spans = []
    code = [t for t in toks if t.kind not in ("ws", "comment")]
    for t in toks:
        if t.kind == "comment" and (t.text.startswith("///") or t.text.startswith("//!")):
            spans.append((t.start, t.end, "")); stats["R0"] += 1
    i = 0
    while i < len(code):
        t = code[i]
        if t.text == "#" and i + 1 < len(code) and code[i + 1].text == "[":
            e = match_close(code, i + 1)
            spans.append((t.start, code[e].end, "")); stats["R0"] += 1
            i = e + 1; continue
        if t.text == "pub" and i + 1 < len(code) and code[i + 1].text == "(":
            e = match_close(code, i + 1)
            spans.append((t.start, code[e].end, "pub")); stats["R0"] += 1
            i = e + 1; continue
        i += 1
    return _replace_spans(src, spans)


def _loops(code):
    """indices of loop keyword tokens (for/while/loop) in source order with header/body token indices"""
    out = []
    for i, t in enumerate(code):
        if t.kind == "ident" and t.text in ("for", "while", "loop"):
            # `for<'a>` in types (HRTB) – not present in extracted code; skip if followed by `<`
            if t.text == "for" and code[i + 1].text == "<":
                continue
            # impl ... for Type: skip when previous tokens look like an impl header (not in fn bodies)
            k = i + 1
            while True:
                tk = code[k]
                if tk.kind == "punct" and tk.text in "([":
                    k = match_close(code, k) + 1; continue
                if tk.kind == "punct" and tk.text == "{":
                    break
                k += 1
            out.append((i, k, match_close(code, k)))
    return out


def _inner_loop_ranges(code, body_lo, body_hi):
    return [(a, c) for (a, b, c) in _loops(code) if body_lo < a < body_hi]


def rule_R1(src, stats, only=None):
    """for P in LO..HI { B }  ->  let mut P = LO; let vx_hiN = HI; while P < vx_hiN { B'; P += 1; }
    every `continue` of this loop becomes { P += 1; continue; }"""
    n = 0
    while True:
        code = _toks(src)
        loops = _loops(code)
        done = True
        for ordinal, (kw, bopen, bclose) in enumerate(loops, 1):
            if code[kw].text != "for":
                continue
            if only and ordinal not in only:
                continue
            # header: for PAT in EXPR
            hdr = code[kw + 1:bopen]
            try:
                in_idx = next(k for k, t in enumerate(hdr) if t.kind == "ident" and t.text == "in")
            except StopIteration:
                continue
            pat = hdr[:in_idx]
            expr = hdr[in_idx + 1:]
            # top-level `..` in expr
            d, dd = 0, None
            for k in range(len(expr) - 1):
                t = expr[k]
                if t.kind == "punct" and t.text in "([{":
                    d += 1
                elif t.kind == "punct" and t.text in ")]}":
                    d -= 1
                elif d == 0 and t.text == "." and expr[k + 1].text == "." and t.end == expr[k + 1].start:
                    dd = k; break
            if dd is None or len(pat) != 1 or pat[0].kind != "ident":
                continue
            if dd + 2 < len(expr) and expr[dd + 2].text == "=":
                continue  # ..= not handled
            lo = src[expr[0].start:expr[dd - 1].end] if dd > 0 else "0"
            hi = src[expr[dd + 2].start:expr[-1].end]
            n += 1
            var = pat[0].text
            if var == "_":
                var = "vx_i%d" % ordinal
            hiv = "vx_hi%d" % ordinal
            # continues belonging to this loop
            inner = _inner_loop_ranges(code, bopen, bclose)
            spans = []
            for k in range(bopen + 1, bclose):
                t = code[k]
                if t.kind == "ident" and t.text == "continue" and not any(a < k < c for a, c in inner):
                    # closures inside are not expected
                    end = code[k + 1].end if code[k + 1].text == ";" else t.end
                    spans.append((t.start, end, "{ %s += 1; continue; }" % var))
            spans.append((code[kw].start, code[bopen].start,
                          "let %s = %s; let mut %s = %s; while %s < %s " % (hiv, hi, var, lo, var, hiv)))
            spans.append((code[bclose].start, code[bclose].start, " %s += 1; " % var))
            src = _replace_spans(src, spans)
            stats["R1"] += 1
            done = False
            break
        if done:
            return src


def rule_R2(src, stats):
    """for (I, X) in E.iter().enumerate() { B }  ->  for I in 0..E.len() { let X = &E[I]; B }"""
    while True:
        code = _toks(src)
        hit = False
        for (kw, bopen, bclose) in _loops(code):
            if code[kw].text != "for":
                continue
            m = re.match(r"for\s*\(\s*(\w+)\s*,\s*(\w+)\s*\)\s*in\s*(.+?)\s*\.\s*iter\s*\(\s*\)\s*\.\s*enumerate\s*\(\s*\)\s*$",
                         src[code[kw].start:code[bopen].start], re.S)
            if not m:
                continue
            i_, x_, e_ = m.groups()
            src = _replace_spans(src, [(code[kw].start, code[bopen].end,
                                        "for %s in 0..%s.len() { let %s = &%s[%s];" % (i_, e_, x_, e_, i_))])
            stats["R2"] += 1
            hit = True
            break
        if not hit:
            return src


def rule_R3(src, stats):
    """.to_be_bytes() -> .vx_to_be_bytes() ; T::from_be_bytes( -> T::vx_from_be_bytes("""
    code = _toks(src)
    spans = []
    for t in code:
        if t.kind == "ident" and t.text in ("to_be_bytes", "from_be_bytes"):
            spans.append((t.start, t.end, "vx_" + t.text)); stats["R3"] += 1
    return _replace_spans(src, spans)


def rule_R4(src, stats):
    """closure parameter |_| -> |_vxN|"""
    code = _toks(src)
    spans = []
    for i in range(len(code) - 2):
        if code[i].text == "|" and code[i + 1].text == "_" and code[i + 2].text == "|":
            spans.append((code[i + 1].start, code[i + 1].end, "_vx%d" % stats["R4"])); stats["R4"] += 1
    return _replace_spans(src, spans)


def rule_R5(src, stats):
    """for P in Q.into_iter() { B } -> let mut vx_qN = Q; while let Some(P) = vx_qN.pop_front() { B }   (Q: VecDeque)"""
    while True:
        code = _toks(src)
        hit = False
        for ordinal, (kw, bopen, bclose) in enumerate(_loops(code), 1):
            if code[kw].text != "for":
                continue
            m = re.match(r"for\s+(.+?)\s+in\s+(.+?)\s*\.\s*into_iter\s*\(\s*\)\s*$", src[code[kw].start:code[bopen].start], re.S)
            if not m:
                continue
            p_, q_ = m.groups()
            src = _replace_spans(src, [(code[kw].start, code[bopen].start,
                                        "let mut vx_q%d = %s; while let Some(%s) = vx_q%d.pop_front() " % (ordinal, q_, p_, ordinal))])
            stats["R5"] += 1
            hit = True
            break
        if not hit:
            return src


def rule_R6(src, stats, only=None):
    """for P in E { B }  ->  let mut vx_itN = E; loop { match vx_itN.next() { Some(P) => { B } None => break } }
    applied to loops whose iterated expression is not a range (crate iterators)"""
    while True:
        code = _toks(src)
        hit = False
        for ordinal, (kw, bopen, bclose) in enumerate(_loops(code), 1):
            if code[kw].text != "for":
                continue
            if only and ordinal not in only:
                continue
            hdr = src[code[kw].start:code[bopen].start]
            m = re.match(r"for\s+(.+?)\s+in\s+(.+?)\s*$", hdr, re.S)
            if not m or ".." in m.group(2):
                continue
            p_, e_ = m.groups()
            src = _replace_spans(src, [
                (code[kw].start, code[bopen].end, "let mut vx_it%d = %s; loop { match vx_it%d.next() { Some(%s) => {" % (ordinal, e_, ordinal, p_)),
                (code[bclose].start, code[bclose].end, "} None => { break; } } }")])
            stats["R6"] += 1
            hit = True
            break
        if not hit:
            return src


def rule_R7(src, stats):
    """assert!(c) -> vx_assert(c); unreachable!(..)/todo!(..)/panic!(..)/unimplemented!(..) -> vx_unreachable()"""
    code = _toks(src)
    spans = []
    i = 0
    while i < len(code) - 2:
        t = code[i]
        if t.kind == "ident" and code[i + 1].text == "!" and code[i + 2].text in "([{":
            e = match_close(code, i + 2)
            if t.text == "assert":
                spans.append((t.start, code[i + 2].start, "vx_assert")); stats["R7"] += 1
            elif t.text in ("unreachable", "todo", "panic", "unimplemented"):
                spans.append((t.start, code[e].end, "vx_unreachable()")); stats["R7"] += 1
            i = e + 1 if t.text != "assert" else i + 1
            continue
        i += 1
    return _replace_spans(src, spans)


def rule_R8(src, stats):
    """matches!(X, P) -> (match X { P => true, _ => false })"""
    while True:
        code = _toks(src)
        hit = False
        for i in range(len(code) - 2):
            t = code[i]
            if t.kind == "ident" and t.text == "matches" and code[i + 1].text == "!" and code[i + 2].text == "(":
                e = match_close(code, i + 2)
                # split at first top-level comma
                d = 0
                comma = None
                for k in range(i + 3, e):
                    tk = code[k]
                    if tk.kind == "punct" and tk.text in "([{":
                        d += 1
                    elif tk.kind == "punct" and tk.text in ")]}":
                        d -= 1
                    elif d == 0 and tk.text == ",":
                        comma = k; break
                x = src[code[i + 3].start:code[comma - 1].end]
                p = src[code[comma + 1].start:code[e - 1].end]
                src = _replace_spans(src, [(t.start, code[e].end, "(match %s { %s => true, _ => false })" % (x, p))])
                stats["R8"] += 1
                hit = True
                break
        if not hit:
            return src


def rule_R9(src, stats):
    """unsafe { E } -> { E }"""
    code = _toks(src)
    spans = []
    for i in range(len(code) - 1):
        if code[i].kind == "ident" and code[i].text == "unsafe" and code[i + 1].text == "{":
            spans.append((code[i].start, code[i].end, "")); stats["R9"] += 1
    return _replace_spans(src, spans)


def rule_R11(src, stats):
    """first statement `if !is_jsonb(X) { TEXT BRANCH }` -> `if !is_jsonb(X) { vx_unreachable() }`:
    the JSON-text branch is dropped from the verified text; sound only together with the precondition
    `requires spec_is_jsonb(X@)`, under which Verus must prove the branch unreachable (vx_unreachable requires false)"""
    code = _toks(src)
    for i in range(len(code) - 6):
        if (code[i].text == "if" and code[i + 1].text == "!" and code[i + 2].text == "is_jsonb" and code[i + 3].text == "("
                and code[i + 5].text == ")" and code[i + 6].text == "{"):
            e = match_close(code, i + 6)
            stats["R11"] = stats.get("R11", 0) + 1
            return _replace_spans(src, [(code[i + 6].end, code[e].start, " vx_unreachable() ")])
    return src


def rule_R12(src, stats):
    """(consts directive, automatic for `static` items) `static N: T = { B };` -> `pub exec static N: T ensures vx_static_N(N@) { B }`:
    the initializer is verified against the unit's spec fn `vx_static_N` (Verus only exposes a static through its ensures)"""
    m = re.match(r"\s*(?:pub\s+)?static\s+(\w+)\s*:\s*([^=]+?)\s*=\s*\{(.*)\}\s*;\s*$", src, re.S)
    if not m:
        raise ExtractError("R12: static item is not of the form `static N: T = { .. };`")
    stats["R12"] = stats.get("R12", 0) + 1
    return "pub exec static %s: %s\n    ensures vx_static_%s(%s@)\n{%s}" % (m.group(1), m.group(2), m.group(1), m.group(1), m.group(3))


def rule_R13(src, stats):
    """for P in A.into_iter() { B }  (A: local fixed-size array of Copy items; B without `continue`)
    -> let vx_aN = A; let mut vx_iN = 0; while vx_iN < vx_aN.len() { let P = vx_aN[vx_iN]; B vx_iN += 1; }
    (Verus has no model of core::array::IntoIter; the items are visited in index order either way)"""
    while True:
        code = _toks(src)
        hit = False
        for ordinal, (kw, bopen, bclose) in enumerate(_loops(code), 1):
            if code[kw].text != "for":
                continue
            m = re.match(r"for\s+(\w+)\s+in\s+(\w+)\s*\.\s*into_iter\s*\(\s*\)\s*$", src[code[kw].start:code[bopen].start], re.S)
            if not m:
                continue
            if any(t.kind == "ident" and t.text == "continue" for t in code[bopen:bclose]):
                raise ExtractError("R13: loop body contains `continue`")
            p_, a_ = m.groups()
            src = _replace_spans(src, [
                (code[kw].start, code[bopen].end,
                 "let vx_a%d = %s; let mut vx_i%d = 0; while vx_i%d < vx_a%d.len() { let %s = vx_a%d[vx_i%d];" % (ordinal, a_, ordinal, ordinal, ordinal, p_, ordinal, ordinal)),
                (code[bclose].start, code[bclose].start, " vx_i%d += 1; " % ordinal)])
            stats["R13"] = stats.get("R13", 0) + 1
            hit = True
            break
        if not hit:
            return src


def rule_R14(src, stats):
    """.map(Path::Variant) (tuple-variant constructor passed as a function value)
    -> .map(|vx_eN| -> (vx_rN: _) ensures vx_same(vx_rN, Path::Variant(vx_eN)) { Path::Variant(vx_eN) })
    (eta expansion; the closure's ensures restates its body; needs `spec fn vx_same<T>(a: T, b: T) -> bool { a == b }` in the unit)"""
    code = _toks(src)
    spans = []
    for i in range(len(code) - 6):
        if (code[i].text == "." and code[i + 1].text == "map" and code[i + 2].text == "(" and code[i + 3].kind == "ident"
                and code[i + 4].text == ":" and code[i + 5].text == ":" and code[i + 6].kind == "ident"
                and code[i + 6].text[:1].isupper() and code[i + 7].text == ")"):
            n = stats.get("R14", 0)
            path = src[code[i + 3].start:code[i + 6].end]
            spans.append((code[i + 3].start, code[i + 6].end,
                          "|vx_e%d| -> (vx_r%d: _) ensures vx_same(vx_r%d, %s(vx_e%d)) { %s(vx_e%d) }" % (n, n, n, path, n, path, n)))
            stats["R14"] = n + 1
    return _replace_spans(src, spans)


def rule_R21(src, stats):
    """leading three-way text ladder of two-argument functions
    `if !is_jsonb(X) && !is_jsonb(Y) {..} else if !is_jsonb(X) {..} else if !is_jsonb(Y) {..}`  (no final else)
    -> `if !is_jsonb(X) || !is_jsonb(Y) { vx_unreachable() }`: the three JSON-text branches are dropped from the verified
    text; sound only together with `requires spec_is_jsonb(X@), spec_is_jsonb(Y@)`, under which all three conditions are
    false and Verus must prove the replacement branch unreachable (vx_unreachable requires false).  The shape of the three
    conditions is checked token by token; anything else is an ExtractError."""
    code = _toks(src)
    tx = [t.text for t in code]
    for i in range(len(code) - 14):
        if tx[i:i + 4] == ["if", "!", "is_jsonb", "("] and tx[i + 5:i + 7] == [")", "&"] and tx[i + 7] == "&" \
                and tx[i + 8:i + 11] == ["!", "is_jsonb", "("] and tx[i + 12:i + 14] == [")", "{"]:
            x, y = tx[i + 4], tx[i + 11]
            e1 = match_close(code, i + 13)
            if tx[e1 + 1:e1 + 8] != ["else", "if", "!", "is_jsonb", "(", x, ")"] or tx[e1 + 8] != "{":
                raise ExtractError("R21: second arm is not `else if !is_jsonb(%s) {`" % x)
            e2 = match_close(code, e1 + 8)
            if tx[e2 + 1:e2 + 8] != ["else", "if", "!", "is_jsonb", "(", y, ")"] or tx[e2 + 8] != "{":
                raise ExtractError("R21: third arm is not `else if !is_jsonb(%s) {`" % y)
            e3 = match_close(code, e2 + 8)
            if tx[e3 + 1] == "else":
                raise ExtractError("R21: ladder has a final else")
            stats["R21"] = stats.get("R21", 0) + 1
            return _replace_spans(src, [(code[i].start, code[e3].end,
                                         "if !is_jsonb(%s) || !is_jsonb(%s) { vx_unreachable() }" % (x, y))])
    return src


def rule_R31(src, stats):
    """for P in E { B }  ->  for P in vx_itN: E { B }   (N = loop ordinal; E not a range, not already named):
    only names the Verus ghost iterator so that loop invariants can refer to vx_itN.index / vx_itN.snapshot"""
    while True:
        code = _toks(src)
        hit = False
        for ordinal, (kw, bopen, bclose) in enumerate(_loops(code), 1):
            if code[kw].text != "for":
                continue
            hdr = src[code[kw].start:code[bopen].start]
            m = re.match(r"for\s+(.+?)\s+in\s+(.+?)\s*$", hdr, re.S)
            if not m or ".." in m.group(2) or re.match(r"vx_it\d+\s*:", m.group(2)):
                continue
            src = _replace_spans(src, [(code[kw].start, code[bopen].start,
                                        "for %s in vx_it%d: %s " % (m.group(1), ordinal, m.group(2)))])
            stats["R31"] = stats.get("R31", 0) + 1
            hit = True
            break
        if not hit:
            return src


RULES = {"R11": rule_R11, "R1": rule_R1, "R2": rule_R2, "R3": rule_R3, "R4": rule_R4, "R5": rule_R5,
         "R6": rule_R6, "R7": rule_R7, "R8": rule_R8, "R9": rule_R9, "R21": rule_R21, "R31": rule_R31}

RULE_DOC = {k: (v.__doc__ or "").strip() for k, v in RULES.items()}
RULES["R13"] = rule_R13
RULES["R14"] = rule_R14
RULE_DOC["R14"] = rule_R14.__doc__.strip()
RULE_DOC["R13"] = rule_R13.__doc__.strip()
RULE_DOC["R12"] = rule_R12.__doc__.strip()
RULE_DOC["R0"] = rule_R0.__doc__.strip()
RULE_DOC["R10"] = "impl<..> Trait for X { type Item = T; fn next(..) } -> inherent impl<..> X { fn next(..) } with Self::Item replaced by T"


def rule_R41(src, stats):
    """`A += B;` where B is an identifier bound (by reference) in the pattern of a `for PAT in E.iter()` header or of a
    `let PAT = &E[I];` of the same function -> `A += *B;`.  std forwards `usize += &usize` to `usize += usize`
    (forward_ref_op_assign!), vstd only specifies the latter.  If B were not a reference the result would not type-check."""
    code = _toks(src)
    refs = set()
    for (kw, bopen, bclose) in _loops(code):
        if code[kw].text != "for":
            continue
        hdr = code[kw + 1:bopen]
        try:
            in_idx = next(k for k, t in enumerate(hdr) if t.kind == "ident" and t.text == "in")
        except StopIteration:
            continue
        if [t.text for t in hdr[-4:]] != [".", "iter", "(", ")"]:
            continue
        refs.update(t.text for t in hdr[:in_idx] if t.kind == "ident" and t.text != "_")
    for i, t in enumerate(code):
        if t.kind == "ident" and t.text == "let":
            k = i + 1
            while k < len(code) and code[k].text not in ("=", ";"):
                k += 1
            if k + 1 < len(code) and code[k].text == "=" and code[k + 1].text == "&" and code[k + 2].text != "mut":
                refs.update(x.text for x in code[i + 1:k] if x.kind == "ident" and x.text not in ("_", "mut", "ref"))
    spans = []
    for i in range(len(code) - 3):
        if code[i].text == "+" and code[i + 1].text == "=" and code[i].end == code[i + 1].start \
                and code[i + 2].kind == "ident" and code[i + 2].text in refs and code[i + 3].text == ";":
            spans.append((code[i + 2].start, code[i + 2].start, "*")); stats["R41"] = stats.get("R41", 0) + 1
    return _replace_spans(src, spans)


RULES["R41"] = rule_R41
RULE_DOC["R41"] = rule_R41.__doc__.strip()


def rule_R42(src, stats):
    """R2 for a structured element pattern: for (I, PAT) in E.iter().enumerate() { B }  ->  for I in 0..E.len() { let PAT = &E[I]; B }
    (PAT any parenthesised pattern, e.g. `(_, jlength)`; E a plain identifier)"""
    while True:
        code = _toks(src)
        hit = False
        for (kw, bopen, bclose) in _loops(code):
            if code[kw].text != "for" or code[kw + 1].text != "(":
                continue
            pclose = match_close(code, kw + 1)
            hdr_rest = [t.text for t in code[pclose + 1:bopen]]
            if len(hdr_rest) != 10 or hdr_rest[0] != "in" or hdr_rest[2:] != [".", "iter", "(", ")", ".", "enumerate", "(", ")"]:
                continue
            if code[kw + 2].kind != "ident" or code[kw + 3].text != "," or code[kw + 4].text != "(":
                continue
            if match_close(code, kw + 4) != pclose - 1:
                continue
            i_ = code[kw + 2].text
            pat = src[code[kw + 4].start:code[pclose - 1].end]
            e_ = hdr_rest[1]
            src = _replace_spans(src, [(code[kw].start, code[bopen].end,
                                        "for %s in 0..%s.len() { let %s = &%s[%s];" % (i_, e_, pat, e_, i_))])
            stats["R42"] = stats.get("R42", 0) + 1
            hit = True
            break
        if not hit:
            return src


RULES["R42"] = rule_R42
RULE_DOC["R42"] = rule_R42.__doc__.strip()


def rule_R22(src, stats):
    """(dual of R11/R21) the binary tail of `fn F(P1, .., Pn)`, i.e. every statement after the first top-level
    `if !is_jsonb(..) .. {..} [else if ..{..}]* [else {..}]` chain of the body, -> `vx_tail_F(P1, .., Pn)`: the text ladder is
    verified verbatim, the inline binary tail becomes a call of the unit's stub `vx_tail_F`, which carries the precondition
    `spec_is_jsonb` of every document argument (the tail itself is verified under that precondition by the unit that applies
    R11/R21 to the same function).  Parameters must be plain identifiers; an empty tail is an ExtractError."""
    code = _toks(src)
    tx = [t.text for t in code]
    k = 0
    while tx[k] != "fn":
        k += 1
    name = tx[k + 1]
    k += 2
    ad = 0      # angle depth of the generics list between the name and the parameter list
    while not (tx[k] == "(" and ad == 0):
        if tx[k] == "<":
            ad += 1
        elif tx[k] == ">" and tx[k - 1] != "-":
            ad -= 1
        k += 1
    pclose = match_close(code, k)
    params, d, expect = [], 0, True
    for j in range(k + 1, pclose):
        t = tx[j]
        if t in "([{<":
            d += 1
        elif t in ")]}>" and not (t == ">" and tx[j - 1] == "-"):
            d -= 1
        elif d == 0 and t == ",":
            expect = True
        elif expect and d == 0 and code[j].kind == "ident" and t != "mut":
            if tx[j + 1] != ":":
                raise ExtractError("R22: parameter %r of %s is not a plain identifier" % (t, name))
            params.append(t); expect = False
    b = pclose + 1
    while tx[b] != "{":
        b = match_close(code, b) + 1 if tx[b] in "([" else b + 1
    bclose = match_close(code, b)
    depth = 0
    for i in range(b + 1, bclose):
        t = tx[i]
        if t in "([{":
            depth += 1
        elif t in ")]}":
            depth -= 1
        elif depth == 0 and tx[i:i + 4] == ["if", "!", "is_jsonb", "("] and tx[i - 1] in ("{", ";", "}"):
            j = i
            while tx[j] != "{":
                j = match_close(code, j) + 1 if tx[j] in "([" else j + 1
            e = match_close(code, j)
            while tx[e + 1] == "else":
                j = e + 2
                while tx[j] != "{":
                    j = match_close(code, j) + 1 if tx[j] in "([" else j + 1
                e = match_close(code, j)
            if e + 1 >= bclose:
                raise ExtractError("R22: %s has no statements after its is_jsonb ladder" % name)
            stats["R22"] = stats.get("R22", 0) + 1
            return _replace_spans(src, [(code[e].end, code[bclose].start,
                                         "\n    vx_tail_%s(%s)\n" % (name, ", ".join(params)))])
    return src


RULES["R22"] = rule_R22
RULE_DOC["R22"] = rule_R22.__doc__.strip()


def rule_R51(src, stats):
    """(consts directive, automatic) `const N: &str = ..;` -> `const N: &'static str = ..;`: the elided lifetime of a reference in a
    const item IS 'static in Rust; Verus turns consts into functions, where the elision is not accepted (E0106)"""
    out = re.sub(r"((?:const|static)\s+\w+\s*:\s*)&(?!\s*')(\s*)", r"\1&'static \2", src, count=1)
    if out != src:
        stats["R51"] = stats.get("R51", 0) + 1
    return out


RULE_DOC["R51"] = rule_R51.__doc__.strip()


def rule_R52(src, stats):
    """closure whose single parameter is a tuple pattern: `|(P1, .., Pn)| BODY` -> `|vx_cN| { let (P1, .., Pn) = vx_cN; BODY }`
    (N = ordinal of the rewritten closure in the fn; BODY = the block after the bars, or the expression up to the next `,`/`)` at
    the closure's nesting depth).  Verus only accepts variables as closure parameters; the closure's requires/ensures are given
    with `#!! after 1 `|vx_cN|`` (Verus verifies a closure body against the closure's own contract)."""
    n = 0
    while True:
        code = _toks(src)
        hit = False
        for i in range(len(code) - 2):
            if code[i].text == "|" and code[i + 1].text == "(" and code[i - 1].text in ("(", ",", "="):
                pe = match_close(code, i + 1)
                if code[pe + 1].text != "|":
                    continue
                b = pe + 2
                if code[b].text == "{":
                    e = match_close(code, b)       # block body: keep it as the tail expression of the new block
                    end = code[e].end
                else:
                    d, k = 0, b
                    while True:
                        t = code[k].text
                        if t in ("(", "[", "{"):
                            d += 1
                        elif t in (")", "]", "}"):
                            if d == 0:
                                break
                            d -= 1
                        elif t == "," and d == 0:
                            break
                        k += 1
                    end = code[k - 1].end
                n += 1
                pat = src[code[i + 1].start:code[pe].end]
                src = _replace_spans(src, [(code[i].start, code[b].start, "|vx_c%d| { let %s = vx_c%d; " % (n, pat, n)),
                                           (end, end, " }")])
                stats["R52"] = stats.get("R52", 0) + 1
                hit = True
                break
        if not hit:
            return src


RULES["R52"] = rule_R52
RULE_DOC["R52"] = rule_R52.__doc__.strip()


def rule_R53(src, stats):
    """closure with a single identifier parameter and a non-block body passed as a call argument: `(|x| E)` -> `(|x| { E })`
    (E = the expression up to the next `,`/`)` at the closure's nesting depth).  Rust only allows a closure contract
    (`-> (r: T) requires .. ensures ..`, given with `#!! after 1 `|x|``) in front of a block body."""
    while True:
        code = _toks(src)
        hit = False
        for i in range(1, len(code) - 3):
            if code[i].text == "|" and code[i + 1].kind == "ident" and code[i + 2].text == "|" \
                    and code[i - 1].text in ("(", ",") and code[i + 3].text != "{" \
                    and not code[i + 1].text.startswith("vx_c"):
                b = i + 3
                d, k = 0, b
                while True:
                    t = code[k].text
                    if t in ("(", "[", "{"):
                        d += 1
                    elif t in (")", "]", "}"):
                        if d == 0:
                            break
                        d -= 1
                    elif t == "," and d == 0:
                        break
                    k += 1
                end = code[k - 1].end
                src = _replace_spans(src, [(code[b].start, code[b].start, "{ "), (end, end, " }")])
                stats["R53"] = stats.get("R53", 0) + 1
                hit = True
                break
        if not hit:
            return src


RULES["R53"] = rule_R53
RULE_DOC["R53"] = rule_R53.__doc__.strip()


def rule_R61(src, stats):
    """`X.try_into().unwrap()` (X an identifier) -> `vx_try_into_unwrap(X)`: slice -> fixed-size array conversion.  vstd has no usable
    spec for `<[u8; N]>::try_from(&[u8])`; the shim `vx_try_into_unwrap` (unit raw part / shims) has `requires X@.len() == N`, so the
    panic of `unwrap()` on a slice of the wrong length becomes a proof obligation, and `ensures r@ == X@`."""
    code = _toks(src)
    spans = []
    for i in range(len(code) - 8):
        if (code[i].kind == "ident" and [t.text for t in code[i + 1:i + 9]] == [".", "try_into", "(", ")", ".", "unwrap", "(", ")"]
                and (i == 0 or code[i - 1].text != ".")):
            spans.append((code[i].start, code[i + 8].end, "vx_try_into_unwrap(%s)" % code[i].text))
            stats["R61"] = stats.get("R61", 0) + 1
    return _replace_spans(src, spans)


RULES["R61"] = rule_R61
RULE_DOC["R61"] = rule_R61.__doc__.strip()


def rule_R71(src, stats):
    """statement `let PAT: TY = E.filter(|P| C).map(|Q| R).collect();` (adapter chain on a crate iterator; exactly this shape, checked
    token by token; C and R expressions without `return`/`?`) ->
    `let mut vx_vN = Vec::new(); let mut vx_fN = E; loop { match vx_fN.next() { Some(vx_eN) => { let vx_kN = { let P = &vx_eN; C };
    if vx_kN { let Q = vx_eN; vx_vN.push(R); } } None => { break; } } } let PAT: TY = vx_vN;`   (N = ordinal of the rewritten statement).
    This is the definition of Filter::next / Map::next / Vec::from_iter unrolled: the predicate sees a reference to each element, the
    mapping consumes the elements that pass, results are pushed in iteration order.  Verus has no model of iterator adapter chains.
    The new `loop` counts as a loop for `#!! loop N`."""
    n = 0
    while True:
        code = _toks(src)
        tx = [t.text for t in code]
        hit = False
        for i in range(len(code)):
            if tx[i] != "let" or code[i].kind != "ident":
                continue
            # let PAT : TY = ... ;  (statement end = first `;` at depth 0)
            d, k, eq = 0, i + 1, None
            while k < len(code):
                t = tx[k]
                if t in ("(", "[", "{"):
                    d += 1
                elif t in (")", "]", "}"):
                    if d == 0:
                        break
                    d -= 1
                elif d == 0 and t == "=" and eq is None and not (tx[k + 1] in ("=", ">") and code[k].end == code[k + 1].start) \
                        and not (tx[k - 1] in ("=", "!", "<", ">", "+", "-", "*", "/", "|", "&", "^", "%") and code[k - 1].end == code[k].start):
                    eq = k
                elif d == 0 and t == ";":
                    break
                k += 1
            if eq is None or k >= len(code) or tx[k] != ";":
                continue
            semi = k
            # tail must be  ) . collect ( ) ;
            if tx[semi - 4:semi] != [".", "collect", "(", ")"] or tx[semi - 5] != ")":
                continue
            map_close = semi - 5
            map_open = next((j for j in range(map_close, eq, -1) if match_close_safe(code, j) == map_close), None)
            if map_open is None or tx[map_open - 2:map_open] != [".", "map"] or tx[map_open - 3] != ")":
                continue
            fil_close = map_open - 3
            fil_open = next((j for j in range(fil_close, eq, -1) if match_close_safe(code, j) == fil_close), None)
            if fil_open is None or tx[fil_open - 2:fil_open] != [".", "filter"]:
                continue

            def closure(lo, hi):
                # tokens lo..hi (exclusive) must be `| PARAM | BODY`; returns (param_text, body_text)
                if tx[lo] != "|":
                    return None
                dd, j = 0, lo + 1
                while j < hi:
                    if tx[j] in ("(", "[", "{"):
                        dd += 1
                    elif tx[j] in (")", "]", "}"):
                        dd -= 1
                    elif tx[j] == "|" and dd == 0:
                        break
                    j += 1
                if j >= hi - 1:
                    return None
                body = tx[j + 1:hi]
                if "return" in body or "?" in body:
                    return None
                return src[code[lo + 1].start:code[j - 1].end], src[code[j + 1].start:code[hi - 1].end]
            cf = closure(fil_open + 1, fil_close)
            cm = closure(map_open + 1, map_close)
            if cf is None or cm is None:
                continue
            n += 1
            e_ = src[code[eq + 1].start:code[fil_open - 3].end]
            head = src[code[i].start:code[eq].end]
            new = ("let mut vx_v%d = Vec::new(); let mut vx_f%d = %s; loop { match vx_f%d.next() { Some(vx_e%d) => { "
                   "let vx_k%d = { let %s = &vx_e%d; %s }; if vx_k%d { let %s = vx_e%d; vx_v%d.push(%s); } } None => { break; } } } "
                   "%s vx_v%d;" % (n, n, e_, n, n, n, cf[0], n, cf[1], n, cm[0], n, n, cm[1], head, n))
            src = _replace_spans(src, [(code[i].start, code[semi].end, new)])
            stats["R71"] = stats.get("R71", 0) + 1
            hit = True
            break
        if not hit:
            return src


def match_close_safe(code, j):
    return match_close(code, j) if code[j].text in ("(", "[", "{") else None


RULES["R71"] = rule_R71
RULE_DOC["R71"] = rule_R71.__doc__.strip()


def rule_R81(src, stats):
    """for (I, X) in E.enumerate() { B }  (E a crate iterator, i.e. not ending in `.iter()`)  ->
    let mut vx_itN = E; let mut vx_nN: usize = 0; loop { match vx_itN.next() { Some(vx_eN) => { let (I, X) = (vx_nN, vx_eN); vx_nN += 1; B } None => { break; } } }
    (Enumerate::next unrolled: `let a = self.iter.next()?; let i = self.count; self.count += 1; Some((i, a))`; the counter
    increment keeps std's overflow check as an obligation; N = loop ordinal; `continue`/`break` in B keep their meaning)"""
    while True:
        code = _toks(src)
        hit = False
        for ordinal, (kw, bopen, bclose) in enumerate(_loops(code), 1):
            if code[kw].text != "for":
                continue
            hdr = src[code[kw].start:code[bopen].start]
            m = re.match(r"for\s*\(\s*(\w+)\s*,\s*(\w+)\s*\)\s*in\s+(.+?)\s*\.\s*enumerate\s*\(\s*\)\s*$", hdr, re.S)
            if not m or re.search(r"\.\s*iter\s*\(\s*\)\s*$", m.group(3)):
                continue
            i_, x_, e_ = m.groups()
            n = ordinal
            src = _replace_spans(src, [
                (code[kw].start, code[bopen].end,
                 "let mut vx_it%d = %s; let mut vx_n%d: usize = 0; loop { match vx_it%d.next() { Some(vx_e%d) => { let (%s, %s) = (vx_n%d, vx_e%d); vx_n%d += 1;"
                 % (n, e_, n, n, n, i_, x_, n, n, n)),
                (code[bclose].start, code[bclose].end, "} None => { break; } } }")])
            stats["R81"] = stats.get("R81", 0) + 1
            hit = True
            break
        if not hit:
            return src


RULES["R81"] = rule_R81
RULE_DOC["R81"] = rule_R81.__doc__.strip()


def rule_R91(src, stats):
    """match-arm alternative `&Enum::Variant` / `&Enum::Variant(_, ..)` (reference pattern that binds nothing)  ->  the same
    pattern without `&` (Verus has no reference patterns; against a scrutinee of reference type the default binding modes
    dereference it, and a pattern without bindings matches the same values either way)"""
    code = _toks(src)
    spans = []
    for i, t in enumerate(code):
        if t.text != "&" or i == 0 or code[i - 1].text not in ("{", "}", ",", "|"):
            continue
        k = i + 1
        # path  Ident(::Ident)+
        if code[k].kind != "ident":
            continue
        k += 1
        segs = 1
        while code[k].text == ":" and code[k + 1].text == ":" and code[k + 2].kind == "ident":
            k += 3; segs += 1
        if segs < 2:
            continue
        if code[k].text == "(":
            e = match_close(code, k)
            if any(x.text not in ("_", ",") for x in code[k + 1:e]):
                continue
            k = e + 1
        if code[k].text == "|" or (code[k].text == "=" and code[k + 1].text == ">"):
            spans.append((t.start, t.end, "")); stats["R91"] = stats.get("R91", 0) + 1
    return _replace_spans(src, spans)


RULES["R91"] = rule_R91
RULE_DOC["R91"] = rule_R91.__doc__.strip()


def rule_R92(src, stats):
    """for P in E.iter() { B }  ->  for vx_jN in 0..E.len() { let P = &E[vx_jN]; B }      (E a place path: slice or Vec; P an identifier)
    for P in E.iter().skip(K) { B }  ->  for vx_jN in K..E.len() { let P = &E[vx_jN]; B }  (empty when K >= E.len(), like Skip)
    (N = loop ordinal; follow with R1 to get a `while` when B has `continue`; Verus has no `continue` in for-loops and no model of Skip)"""
    while True:
        code = _toks(src)
        hit = False
        for ordinal, (kw, bopen, bclose) in enumerate(_loops(code), 1):
            if code[kw].text != "for":
                continue
            m = re.match(r"for\s+(\w+)\s+in\s+([\w\.]+?)\s*\.\s*iter\s*\(\s*\)(?:\s*\.\s*skip\s*\(\s*(\w+)\s*\))?\s*$",
                         src[code[kw].start:code[bopen].start], re.S)
            if not m:
                continue
            p_, e_, k_ = m.groups()
            src = _replace_spans(src, [(code[kw].start, code[bopen].end,
                                        "for vx_j%d in %s..%s.len() { let %s = &%s[vx_j%d];" % (ordinal, k_ or "0", e_, p_, e_, ordinal))])
            stats["R92"] = stats.get("R92", 0) + 1
            hit = True
            break
        if not hit:
            return src


RULES["R92"] = rule_R92
RULE_DOC["R92"] = rule_R92.__doc__.strip()


def rule_R93(text, names, stats):
    """(`#! use UNIT without=F1,F2`) in the raw text imported from UNIT every top-level `impl .. { .. }` block that declares
    `fn F` for a listed F is dropped: UNIT assumed F through a hand-written stub, the importing unit proves the real F
    (listed there with `#! fn`), and the two definitions would clash.  Extension (unit sel3, implemented in build/process): a listed F
    also suppresses the generated stub of a `#! fn ..::F` of UNIT, and the list is inherited by the `#! use` imports nested in UNIT.
    Addition (unit jpexpr): a top-level FREE-function stand-in `[#[attr]]* [pub] fn F(..) .. { body }` of a listed F in UNIT's raw text is dropped as well
    (unit jpgram's stand-in `predicate_or_paths`); units that list no such name are unaffected (generated text identical)."""
    code = _toks(text)
    spans = []
    depth = 0
    i = 0
    while i < len(code):
        t = code[i]
        if t.kind == "punct" and t.text in "([{":
            depth += 1
        elif t.kind == "punct" and t.text in ")]}":
            depth -= 1
        elif depth == 0 and t.kind == "ident" and t.text == "impl":
            k = i + 1
            while code[k].text != "{":
                k = match_close(code, k) + 1 if code[k].text in "([" else k + 1
            e = match_close(code, k)
            inner = [code[j + 1].text for j in range(k, e) if code[j].kind == "ident" and code[j].text == "fn"]
            if any(n in inner for n in names):
                spans.append((t.start, code[e].end, "// [R93] stub of %s dropped: the importing unit proves the real function" % ", ".join(n for n in names if n in inner)))
                stats["R93"] = stats.get("R93", 0) + 1
            i = e + 1
            continue
        elif depth == 0 and t.kind == "ident" and t.text == "fn" and i + 1 < len(code) and code[i + 1].text in names:
            # (backwards-compatible addition) a hand-written FREE-function stand-in `[#[attr]]* [pub] fn F(..) -> .. requires/ensures .. { body }`
            # of a listed F is dropped too.  The body is the first depth-0 brace group after the signature that is followed by the start of
            # another item (or the end of the text): brace groups inside the contract (`match x { .. },`) are followed by `,` or an operator.
            ITEM = ("pub", "fn", "#", "impl", "proof", "spec", "open", "closed", "uninterp", "broadcast", "enum", "struct", "type", "use", "mod",
                    "const", "static", "trait", "unsafe", "exec")
            k = i + 2
            e = None
            while k < len(code):
                if code[k].kind == "punct" and code[k].text in "([":
                    k = match_close(code, k) + 1
                    continue
                if code[k].kind == "punct" and code[k].text == "{":
                    c = match_close(code, k)
                    if c + 1 >= len(code) or code[c + 1].text in ITEM:
                        e = c
                        break
                    k = c + 1
                    continue
                k += 1
            if e is not None:
                b = i
                while b > 0:
                    if code[b - 1].text == "pub":
                        b -= 1
                    elif code[b - 1].text == ")" and b >= 4 and code[b - 4].text == "pub" and code[b - 3].text == "(":
                        b -= 4
                    elif code[b - 1].text == "]":
                        o = b - 2
                        d2 = 1
                        while o >= 0 and d2 > 0:
                            if code[o].text == "]":
                                d2 += 1
                            elif code[o].text == "[":
                                d2 -= 1
                            o -= 1
                        if o >= 0 and code[o].text == "#":
                            b = o
                        else:
                            break
                    else:
                        break
                spans.append((code[b].start, code[e].end, "// [R93] free-function stub of %s dropped: the importing unit proves the real function" % code[i + 1].text))
                stats["R93"] = stats.get("R93", 0) + 1
                i = e + 1
                continue
        i += 1
    return _replace_spans(text, spans)


RULE_DOC["R93"] = rule_R93.__doc__.strip()


def _rule_for_method(src, stats, only, rid, method):
    """shared by R94/R95: `for P in E { B }` (E a plain identifier) -> `for P in E.<method>() { B }`"""
    while True:
        code = _toks(src)
        hit = False
        for ordinal, (kw, bopen, bclose) in enumerate(_loops(code), 1):
            if code[kw].text != "for":
                continue
            if only and ordinal not in only:
                continue
            m = re.match(r"for\s+(.+?)\s+in\s+(\w+)\s*$", src[code[kw].start:code[bopen].start], re.S)
            if not m:
                continue
            src = _replace_spans(src, [(code[bopen - 1].end, code[bopen - 1].end, ".%s()" % method)])
            stats[rid] = stats.get(rid, 0) + 1
            hit = True
            break
        if not hit:
            return src


def rule_R94(src, stats, only=None):
    """for P in E { B }  ->  for P in E.iter() { B }   (E an identifier bound to a SHARED reference to a std collection, e.g.
    `&BTreeMap<K, V>`; select the loops with `R94@N+M`).  std defines `<&'a C as IntoIterator>::into_iter(self)` as `self.iter()`
    for Vec, slices, BTreeMap, BTreeSet, VecDeque; vstd only specifies `BTreeMap::iter`.  If E were not such a reference the result would
    not type-check (or would iterate by reference instead of by value and the body would not type-check)."""
    return _rule_for_method(src, stats, only, "R94", "iter")


def rule_R95(src, stats, only=None):
    """for P in E { B }  ->  for P in E.iter_mut() { B }   (E an identifier bound to `&mut Vec<T>` / `&mut [T]`; select the loops with
    `R95@N+M`).  std defines `<&'a mut Vec<T> as IntoIterator>::into_iter(self)` as `self.iter_mut()`; vstd only specifies `[T]::iter_mut`."""
    return _rule_for_method(src, stats, only, "R95", "iter_mut")


RULES["R94"] = rule_R94
RULE_DOC["R94"] = rule_R94.__doc__.strip()
RULES["R95"] = rule_R95
RULE_DOC["R95"] = rule_R95.__doc__.strip()


def rule_R99(src, stats, only=None):
    """for P in E { B }  ->  for P in E.into_iter() { B }   (E an identifier bound to an OWNED std collection, e.g. a `BTreeMap<K, V>`
    moved out of a `match`; select the loops with `R99@N+M`).  A `for` loop calls `IntoIterator::into_iter` on its operand; writing the
    call out lets R6 bind the iterator (`let mut vx_itN = E.into_iter();`) so that a trusted model of the owning iterator applies."""
    return _rule_for_method(src, stats, only, "R99", "into_iter")


RULES["R99"] = rule_R99
RULE_DOC["R99"] = rule_R99.__doc__.strip()


def rule_R96(src, stats):
    """R71 without the `.map(..)` stage: statement `let PAT: TY = E.filter(|P| C).collect();` (exactly this shape, checked token by token;
    C an expression without `return`/`?`) ->
    `let mut vx_vN = Vec::new(); let mut vx_fN = E; loop { match vx_fN.next() { Some(vx_eN) => { let vx_kN = { let P = &vx_eN; C };
    if vx_kN { vx_vN.push(vx_eN); } } None => { break; } } } let PAT: TY = vx_vN;`   (N = ordinal of the rewritten statement).
    Filter::next / Vec::from_iter unrolled: the predicate sees a reference to each item, the items that pass are pushed in iteration
    order.  The new `loop` counts as a loop for `#!! loop N`; anchors: `let vx_k1 =`, `vx_v1.push(`."""
    n = 0
    while True:
        code = _toks(src)
        tx = [t.text for t in code]
        hit = False
        for i in range(len(code)):
            if tx[i] != "let" or code[i].kind != "ident":
                continue
            d, k, eq = 0, i + 1, None
            while k < len(code):
                t = tx[k]
                if t in ("(", "[", "{"):
                    d += 1
                elif t in (")", "]", "}"):
                    if d == 0:
                        break
                    d -= 1
                elif d == 0 and t == "=" and eq is None and not (tx[k + 1] in ("=", ">") and code[k].end == code[k + 1].start) \
                        and not (tx[k - 1] in ("=", "!", "<", ">", "+", "-", "*", "/", "|", "&", "^", "%") and code[k - 1].end == code[k].start):
                    eq = k
                elif d == 0 and t == ";":
                    break
                k += 1
            if eq is None or k >= len(code) or tx[k] != ";":
                continue
            semi = k
            # tail must be  ) . collect ( ) ;
            if tx[semi - 4:semi] != [".", "collect", "(", ")"] or tx[semi - 5] != ")":
                continue
            fil_close = semi - 5
            fil_open = next((j for j in range(fil_close, eq, -1) if match_close_safe(code, j) == fil_close), None)
            if fil_open is None or tx[fil_open - 2:fil_open] != [".", "filter"]:
                continue
            # closure `| PARAM | BODY` filling the whole argument list
            lo, hi = fil_open + 1, fil_close
            if tx[lo] != "|":
                continue
            dd, j = 0, lo + 1
            while j < hi:
                if tx[j] in ("(", "[", "{"):
                    dd += 1
                elif tx[j] in (")", "]", "}"):
                    dd -= 1
                elif tx[j] == "|" and dd == 0:
                    break
                j += 1
            if j >= hi - 1 or "return" in tx[j + 1:hi] or "?" in tx[j + 1:hi]:
                continue
            param = src[code[lo + 1].start:code[j - 1].end]
            body = src[code[j + 1].start:code[hi - 1].end]
            n += 1
            e_ = src[code[eq + 1].start:code[fil_open - 3].end]
            head = src[code[i].start:code[eq].end]
            new = ("let mut vx_v%d = Vec::new(); let mut vx_f%d = %s; loop { match vx_f%d.next() { Some(vx_e%d) => { "
                   "let vx_k%d = { let %s = &vx_e%d; %s }; if vx_k%d { vx_v%d.push(vx_e%d); } } None => { break; } } } "
                   "%s vx_v%d;" % (n, n, e_, n, n, n, param, n, body, n, n, n, head, n))
            src = _replace_spans(src, [(code[i].start, code[semi].end, new)])
            stats["R96"] = stats.get("R96", 0) + 1
            hit = True
            break
        if not hit:
            return src


RULES["R96"] = rule_R96
RULE_DOC["R96"] = rule_R96.__doc__.strip()


def rule_R97(src, stats):
    """R4 for closures with several parameters: a parameter that is the wildcard pattern `_` in `|P1, .., Pn|` (closure passed as a
    call argument) -> `_vxN` (a fresh, unused variable; Verus only accepts variables as closure parameters)"""
    code = _toks(src)
    spans = []
    i = 1
    while i < len(code):
        if code[i].text == "|" and code[i - 1].text in ("(", ","):
            d, j = 0, i + 1
            while j < len(code):
                t = code[j].text
                if t in ("(", "[", "{", "<"):
                    d += 1
                elif t in (")", "]", "}", ">"):
                    d -= 1
                elif t == "|" and d == 0:
                    break
                j += 1
            for k in range(i + 1, j):
                if code[k].text == "_" and code[k - 1].text in ("|", ",") and code[k + 1].text in ("|", ",", ":"):
                    n = stats.get("R97", 0)
                    spans.append((code[k].start, code[k].end, "_vx%d" % n)); stats["R97"] = n + 1
            i = j + 1
            continue
        i += 1
    return _replace_spans(src, spans)


RULES["R97"] = rule_R97
RULE_DOC["R97"] = rule_R97.__doc__.strip()


def rule_R98(src, stats):
    """R53 for closures with several parameters: `(|x1, .., xn| E)` (n >= 2, plain identifiers, non-block body, passed as a call
    argument) -> `(|x1, .., xn| { E })` (E = the expression up to the next `,`/`)` at the closure's nesting depth).  A closure contract
    (`-> (r: T) requires .. ensures ..`, given with `#!! after 1 `|x1, .., xn|``) needs a block body.  Apply after R97."""
    while True:
        code = _toks(src)
        hit = False
        for i in range(1, len(code) - 3):
            if code[i].text != "|" or code[i - 1].text not in ("(", ","):
                continue
            j = i + 1
            n = 0
            while code[j].kind == "ident" and code[j + 1].text in (",", "|"):
                n += 1
                if code[j + 1].text == "|":
                    j += 1
                    break
                j += 2
            if n < 2 or code[j].text != "|" or code[j + 1].text in ("{", "-"):
                continue
            b = j + 1
            d, k = 0, b
            while True:
                t = code[k].text
                if t in ("(", "[", "{"):
                    d += 1
                elif t in (")", "]", "}"):
                    if d == 0:
                        break
                    d -= 1
                elif t == "," and d == 0:
                    break
                k += 1
            end = code[k - 1].end
            src = _replace_spans(src, [(code[b].start, code[b].start, "{ "), (end, end, " }")])
            stats["R98"] = stats.get("R98", 0) + 1
            hit = True
            break
        if not hit:
            return src


RULES["R98"] = rule_R98
RULE_DOC["R98"] = rule_R98.__doc__.strip()


# --------------------------------------------------------------------------- unit parsing

class FnSpec:
    def __init__(self, file, name, opts):
        self.file, self.name, self.opts = file, name, opts
        self.spec = ""
        self.loops = {}
        self.anchors = []      # (where, n, stmt, text)
        self.body_start = ""

    @property
    def tags(self):
        return [t for t in self.opts.get("tags", "").split(",") if t]


def parse_unit(path):
    unit = {"name": os.path.basename(path)[:-3], "parts": []}
    cur = None       # current part
    sub = None       # (kind, key) within fn
    buf = []

    def flush():
        nonlocal buf
        text = "\n".join(buf)
        buf = []
        if cur is None:
            return
        if cur[0] == "raw":
            cur[1]["text"] = cur[1].get("text", "") + text
        elif cur[0] == "fn" and sub is not None:
            f = cur[1]
            if sub[0] == "spec":
                f.spec = text
            elif sub[0] == "loop":
                f.loops[sub[1]] = text
            elif sub[0] == "body_start":
                f.body_start = text
            elif sub[0] in ("before", "after"):
                f.anchors.append((sub[0], sub[1], sub[2], text))

    for lineno, line in enumerate(open(path).read().split("\n"), 1):
        s = line.strip()
        if s.startswith("#!!"):
            flush()
            w = s[3:].strip()
            m = re.match(r"(before|after)\s+(\d+)\s+`(.*)`\s*$", w)
            if w == "spec":
                sub = ("spec",)
            elif w == "body_start":
                sub = ("body_start",)
            elif w.startswith("loop"):
                sub = ("loop", int(w.split()[1]))
            elif m:
                sub = (m.group(1), int(m.group(2)), m.group(3))
            else:
                raise ExtractError("%s:%d bad sub-directive %r" % (path, lineno, s))
            continue
        if s.startswith("#!"):
            flush()
            sub = None
            w = s[2:].split()
            if not w:
                continue
            if w[0] == "unit":
                unit["name"] = w[1]; cur = None
            elif w[0] == "feature":
                unit.setdefault("features", []).append(w[1]); cur = None
            elif w[0] == "raw":
                rid = None
                for x in w[1:]:
                    if x.startswith("id="):
                        rid = x[3:]
                cur = ("raw", {"line": lineno, "id": rid}); unit["parts"].append(cur)
            elif w[0] == "consts":
                cur = ("consts", {"file": w[1], "names": w[2:]}); unit["parts"].append(cur)
            elif w[0] == "item":
                opts = dict(kv.split("=", 1) for kv in w[3:])
                cur = ("item", {"file": w[1], "name": w[2], "opts": opts}); unit["parts"].append(cur)
            elif w[0] == "specs":
                cur = ("specs", {"unit": w[1], "names": w[2:]}); unit["parts"].append(cur)
            elif w[0] == "use":
                cur = ("use", {"unit": w[1], "without": [n for x in w[2:] if x.startswith("without=") for n in x[8:].split(",") if n]}); unit["parts"].append(cur)
            elif w[0] == "fn":
                rest = s[2:].split(None, 3)
                optstr = rest[3] if len(rest) > 3 else ""
                opts = {}
                for m in re.finditer(r"(\w+)=(\"[^\"]*\"|\S+)", optstr):
                    opts[m.group(1)] = m.group(2).strip('"')
                cur = ("fn", FnSpec(w[1], w[2], opts)); unit["parts"].append(cur)
            else:
                raise ExtractError("%s:%d unknown directive %r" % (path, lineno, s))
            continue
        buf.append(line)
    flush()
    return unit


# --------------------------------------------------------------------------- assembly

_item_cache = {}



def rule_R101(src, stats):
    """statement `M.entry(K).or_insert(V);` (M a place path at the start of a statement, K and V any expressions)  ->
    `{ let vx_ekN = K; let vx_evN = V; if !M.contains_key(&vx_ekN) { M.insert(vx_ekN, vx_evN); } }`
    (exactly what `Entry::or_insert` does for a map: K and V are evaluated once, in the same order, and the pair is inserted only
    when the key is absent; Verus has no model of the Entry API. DEFAULT rule: tried on every extracted function, a no-op unless
    the statement form occurs, so that an edit introducing the Entry API is judged instead of leaving the unit undecided)"""
    def close(i):
        # index of the parenthesis closing the one at src[i]
        d = 0
        for j in range(i, len(src)):
            if src[j] == "(":
                d += 1
            elif src[j] == ")":
                d -= 1
                if d == 0:
                    return j
        return -1
    spans = []
    for m in re.finditer(r"(?m)^(\s*)([A-Za-z_][\w\.]*)\s*\.\s*entry\s*\(", src):
        ind, mp = m.groups()
        o1 = m.end() - 1
        c1 = close(o1)
        if c1 < 0:
            continue
        m2 = re.match(r"\s*\.\s*or_insert\s*\(", src[c1 + 1:])
        if not m2:
            continue
        o2 = c1 + 1 + m2.end() - 1
        c2 = close(o2)
        if c2 < 0:
            continue
        m3 = re.match(r"\s*;", src[c2 + 1:])
        if not m3:
            continue
        n = stats.get("R101", 0) + 1
        stats["R101"] = n
        k, v = src[o1 + 1:c1], src[o2 + 1:c2]
        spans.append((m.start(), c2 + 1 + m3.end(),
                      "%s{ let vx_ek%d = %s; let vx_ev%d = %s; if !%s.contains_key(&vx_ek%d) { %s.insert(vx_ek%d, vx_ev%d); } }" % (ind, n, k, n, v, mp, n, mp, n, n)))
    return _replace_spans(src, spans)


RULES["R101"] = rule_R101
RULE_DOC["R101"] = rule_R101.__doc__.strip()
DEFAULT_RULES = ["R101"]

# --- plugin rule modules: every tools/rules_*.py is loaded and its `register(RULES, RULE_DOC, extract_module)` is called.
# A plugin rule has the same shape as the rules above: `rule(src, stats) -> src`, purely syntactic, counted in `stats`.
def _load_rule_plugins():
    import glob, importlib.util
    here = os.path.dirname(os.path.abspath(__file__))
    for p in sorted(glob.glob(os.path.join(here, "rules_*.py"))):
        sp = importlib.util.spec_from_file_location(os.path.basename(p)[:-3], p)
        m = importlib.util.module_from_spec(sp)
        sp.loader.exec_module(m)
        m.register(RULES, RULE_DOC, sys.modules[__name__])


_load_rule_plugins()

def items_of(file):
    path = os.path.join(REPO_SRC, file)
    if path not in _item_cache:
        src = open(path).read()
        _item_cache[path] = (src, find_items(src))
    return _item_cache[path]


def find_fn(file, qname):
    src, items = items_of(file)
    owner, _, name = qname.rpartition("::")
    nth = 1
    m = re.match(r"(.*)#(\d+)$", name)
    if m:
        name, nth = m.group(1), int(m.group(2))
    c = [it for it in items if it.kind == "fn" and it.name == name and (it.owner or "") == owner]
    if len(c) < nth:
        raise ExtractError("function %s not found in %s" % (qname, file))
    return c[nth - 1]


def splice_fn(fs, stats, canary=False, stub=False):
    """returns (text, segments) where segments = list of (text, origin) with origin in
    ('code', file, line) | ('spec', fnname, what)"""
    it = find_fn(fs.file, fs.name)
    text = it.text
    text = rule_R0(text, stats)
    rules = [r for r in fs.opts.get("rules", "").split(",") if r]
    for r in rules:
        optional = r.endswith("?")
        rid, _, arg = r.rstrip("?").partition("@")
        only = [int(x) for x in arg.split("+")] if arg else None
        if rid == "R10":
            continue
        before = text
        if rid in ("R1", "R6", "R94", "R95", "R99"):
            text = RULES[rid](text, stats, only)
        else:
            text = RULES[rid](text, stats)
        if text == before and not optional:
            stats.setdefault("warnings", []).append({"fn": fs.name, "kind": "rule", "what": "rule %s no longer applies to %s::%s" % (rid, fs.file, fs.name)})
    for rid in DEFAULT_RULES:
        if rid not in [r.rstrip("?").partition("@")[0] for r in rules]:
            text = RULES[rid](text, stats)
    vis = fs.opts.get("vis", "pub")
    # --- visibility
    if vis == "pub":
        text = re.sub(r"^\s*(pub\s+)?", "pub ", text, count=1)
    # trait-impl methods must not carry `pub`
    if getattr(it, "is_trait_impl", False) and "R10" not in rules:
        text = re.sub(r"^\s*pub\s+", "", text, count=1)
    # --- Self::Item replacement for R10
    if "R10" in rules:
        src, _ = items_of(fs.file)
        # find `type Item = T;` inside the impl block that contains this fn
        blk_start = src.rfind(it.impl_header, 0, it.start)
        m = re.search(r"type\s+Item\s*=\s*([^;]+);", src[blk_start:it.start])
        if not m:
            raise ExtractError("R10: no `type Item` for %s" % fs.name)
        text = text.replace("Self::Item", m.group(1).strip())
        stats["R10"] += 1
    code = _toks(text)
    # --- locate signature end / body
    k = 0
    while True:
        tk = code[k]
        if tk.kind == "punct" and tk.text in "([":
            k = match_close(code, k) + 1; continue
        if tk.kind == "punct" and tk.text == "{":
            break
        k += 1
    body_open = k
    body_close = match_close(code, k)
    inserts = []   # (pos, text, what)
    # --- return value naming
    ret = fs.opts.get("ret", "r")
    arrow = None
    d = 0
    for j in range(body_open):
        t = code[j]
        if t.text == "-" and code[j + 1].text == ">" and t.end == code[j + 1].start:
            # only at paren depth 0 (not inside fn-pointer types in params)
            arrow = j
    # crude but sufficient: the last `->` before the body at paren depth 0
    if arrow is not None:
        depth = 0
        for j in range(arrow):
            if code[j].text in "([":
                depth += 1
            elif code[j].text in ")]":
                depth -= 1
        if depth != 0:
            arrow = None
    spans = []
    if arrow is not None:
        ty_start = code[arrow + 2].start
        # return type ends at `where` (depth 0) or the body
        ty_end_tok = body_open
        dd = 0
        for j in range(arrow + 2, body_open):
            t = code[j]
            if t.text in "<([":
                dd += 1
            elif t.text in ">)]" and not (t.text == ">" and code[j - 1].text == "-"):
                dd -= 1
            elif t.kind == "ident" and t.text == "where" and dd == 0:
                ty_end_tok = j; break
        ty_end = code[ty_end_tok - 1].end
        spans.append((ty_start, ty_end, "(%s: %s)" % (ret, text[ty_start:ty_end])))
    attrs = fs.opts.get("attrs", "")
    # --- spec between signature and body
    if fs.spec.strip():
        inserts.append((code[body_open].start, "\n" + fs.spec.rstrip() + "\n", "spec"))
    if fs.body_start.strip():
        inserts.append((code[body_open].end, "\n" + fs.body_start.rstrip() + "\n", "body_start"))
    if canary and fs.spec.strip():
        inserts.append((code[body_open].end, "\nproof { assert(false); } // CANARY fn\n", "canary"))
    # --- loops
    loops = _loops(code[body_open:body_close + 1])
    for n, ltext in ({} if stub else fs.loops).items():
        if n > len(loops):
            stats.setdefault("warnings", []).append({"fn": fs.name, "kind": "loop", "what": "%s::%s has %d loops, contract refers to loop %d (invariant dropped)" % (fs.file, fs.name, len(loops), n)})
            continue
        kw, bo, bc = loops[n - 1]
        inserts.append((code[body_open + bo].start, "\n" + ltext.rstrip() + "\n", "loop %d" % n))
        # with loop_isolation(false) the loop body is part of the function's own query, where the function-start canary
        # has already been assumed: a loop canary there cannot fire and is not generated
        if canary and "loop_isolation(false)" not in fs.opts.get("attrs", "") and "loop_isolation(false)" not in ltext:
            inserts.append((code[body_open + bo].end, "\nproof { assert(false); } // CANARY loop %d\n" % n, "canary@%d" % code[body_open + kw].start))
    for n in range(1, len(loops) + 1):
        pass
    if stub:
        # contract-only copy: signature + spec, body replaced (used by `#! use UNIT`: the contract is proved in that unit)
        inserts = [x for x in inserts if x[2] == "spec"]
        spans.append((code[body_open].start, code[body_close].end, "{ unimplemented!() }"))
    # --- statement anchors
    for where, n, stmt, ptext in ([] if stub else fs.anchors):
        pat = [t.text for t in lex(stmt)]
        hits = []
        for j in range(body_open, body_close - len(pat) + 2):
            if code[j].text == pat[0] and [t.text for t in code[j:j + len(pat)]] == pat:
                hits.append(j)
        if len(hits) < n:
            # the anchored statement itself was edited: fall back to the longest prefix of the anchor (>= 3 tokens) that
            # still occurs exactly once in the function, so that the hint stays in place and Verus judges the edited code
            alt = None
            for cut in range(len(pat) - 1, 2, -1):
                sub = pat[:cut]
                h2 = [j for j in range(body_open, body_close - cut + 2)
                      if code[j].text == sub[0] and [t.text for t in code[j:j + cut]] == sub]
                if len(h2) == 1:
                    alt = (h2[0], cut)
                    break
            endtok = None
            if alt is not None and where == "after" and pat[-1] == ";":
                # `after` a whole statement that was edited inside: the hint goes after the `;` that ends the statement starting
                # with the matched prefix (bracket depth 0), so that Verus judges the edited statement with the hint in place
                dd = 0
                for j2 in range(alt[0], body_close):
                    tx = code[j2].text
                    if tx in "([{":
                        dd += 1
                    elif tx in ")]}":
                        dd -= 1
                        if dd < 0:
                            break
                    elif tx == ";" and dd == 0:
                        endtok = j2
                        break
            if alt is None or (where == "after" and endtok is None):
                stats.setdefault("warnings", []).append({"fn": fs.name, "kind": "anchor", "what": "anchor `%s` #%d not found in %s::%s (proof hint dropped)" % (stmt, n, fs.file, fs.name)})
                continue
            stats.setdefault("notes", []).append({"fn": fs.name, "what": "anchor `%s` matched by its unique prefix of %d tokens" % (stmt, alt[1])})
            ipos = code[alt[0]].start if where == "before" else code[endtok].end
            inserts.append((ipos, "\n" + ptext.rstrip() + "\n", "%s `%s` (prefix match)" % (where, stmt)))
            continue
        j = hits[n - 1]
        pos = code[j].start if where == "before" else code[j + len(pat) - 1].end
        inserts.append((pos, "\n" + ptext.rstrip() + "\n", "%s `%s`" % (where, stmt)))
    # a proof hint placed directly before a loop may carry `#[verifier::loop_isolation(false)]` for that loop: no canary there
    # either (same reason as above)
    noiso = set(p for (p, t, w) in inserts if "loop_isolation(false)" in t)
    inserts = [((p, t, "canary") if w.startswith("canary@") else (p, t, w)) for (p, t, w) in inserts
               if not (w.startswith("canary@") and int(w[7:]) in noiso)]
    # --- build segment list
    events = [(s, e, r, None) for (s, e, r) in spans] + [(p, p, t, w) for (p, t, w) in inserts]
    events.sort(key=lambda x: (x[0], x[1]))
    segs = []
    pos = 0
    base_line = it.line

    def code_seg(a, b):
        if a < b:
            segs.append((text[a:b], ("code",)))
    for s, e, r, w in events:
        code_seg(pos, s)
        segs.append((r, ("spec", w or "ret")))
        pos = e
    code_seg(pos, len(text))
    header = ""
    if stub:
        attrs = "verifier::external_body"
    if attrs:
        header = "".join("#[%s]\n" % a for a in attrs.split(";") if a)
    return it, header, segs


def pull_specs(unit_path, names):
    """copy named `spec fn` / `proof fn` / `spec const` items verbatim out of the raw sections of another unit"""
    u = parse_unit(unit_path)
    raw = "\n".join(part.get("text", "") for kind, part in u["parts"] if kind == "raw")
    toks = lex(raw)
    out = []
    for name in names:
        found = None
        for i, t in enumerate(toks):
            if t.kind == "ident" and t.text == name and i > 0 and toks[i - 1].text in ("fn", "const"):
                # walk back over modifiers to the start of the item
                j = i - 1
                while j > 0 and toks[j - 1].kind == "ident" and toks[j - 1].text in ("pub", "open", "closed", "uninterp", "spec", "proof", "broadcast"):
                    j -= 1
                if not any(toks[k].text in ("spec", "proof") for k in range(j, i)):
                    continue
                # attributes directly above (#[...]) belong to the item
                while j >= 4 and toks[j - 1].text == "]":
                    k = j - 1
                    d = 0
                    while k >= 0:
                        if toks[k].text == "]": d += 1
                        elif toks[k].text == "[":
                            d -= 1
                            if d == 0: break
                        k -= 1
                    if k >= 1 and toks[k - 1].text == "#":
                        j = k - 1
                    else:
                        break
                # end: `;` at depth 0 (uninterp / const) or the matching brace of the body
                k = i + 1
                end = None
                while k < len(toks):
                    tk = toks[k]
                    if tk.kind == "punct" and tk.text in "([":
                        k = match_close(toks, k) + 1; continue
                    if tk.kind == "punct" and tk.text == ";":
                        end = tk.end; break
                    if tk.kind == "punct" and tk.text == "{":
                        end = toks[match_close(toks, k)].end; break
                    k += 1
                found = raw[toks[j].start:end]
                break
        if found is None:
            raise ExtractError("spec item %s not found in unit %s" % (name, unit_path))
        out.append(found)
    return "\n\n".join(out) + "\n"


def build(unit_path, prelude_paths, canary=False):
    """returns (generated_text, linemap, info) ; linemap[i] (0-based line) = dict(origin=..., fn=..., what=...)"""
    unit = parse_unit(unit_path)
    stats = {k: 0 for k in ["R0", "R1", "R2", "R3", "R4", "R5", "R6", "R7", "R8", "R9", "R10", "R11"]}
    out = []       # (text, meta)
    fns = []

    def emit(text, meta):
        out.append((text, meta))

    emit("// GENERATED by /verif/tools/extract.py from %s -- do not edit\n" % unit_path, {"origin": "gen"})
    emit("#![allow(unused_imports, unused_variables, unused_mut, dead_code, unused_assignments, non_snake_case, unreachable_patterns, unused_parens, unused_braces, unreachable_code)]\n", {"origin": "gen"})
    feats = list(unit.get("features", []))
    for kind, part in unit["parts"]:
        if kind == "use":
            feats += parse_unit(os.path.join(os.path.dirname(unit_path), part["unit"] + ".vu")).get("features", [])
    for feat in sorted(set(feats)):
        emit("#![feature(%s)]\n" % feat, {"origin": "gen"})
    emit("use vstd::prelude::*;\nuse vstd::std_specs::iter::IteratorSpec;\nuse std::collections::{BTreeMap, BTreeSet, VecDeque};\nuse std::borrow::Cow;\nuse std::cmp::Ordering;\nverus! {\n", {"origin": "gen"})
    for p in prelude_paths:
        emit(open(p).read() + "\n", {"origin": "prelude", "file": p})
    seen = set()   # de-duplication across `#! use` imports: consts / items / fn stubs by name, raw parts by id=
    drop_stubs = []   # stack of `without=` lists of the `#! use` imports being processed (R93)

    def process(unit, unit_path, stub):
        for kind, part in unit["parts"]:
            if kind == "raw" and part.get("id"):
                if ("raw", part["id"]) in seen:
                    continue
                seen.add(("raw", part["id"]))
            if kind == "item":
                if ("item", part["name"]) in seen:
                    continue
                seen.add(("item", part["name"]))
            if kind == "fn" and stub and part.name.rpartition("::")[2].split("#")[0] in [n for l in drop_stubs for n in l]:
                # R93 (extension, unit sel3): a `#! fn` of the imported unit (or of a unit it imports) that is listed in `without=`
                # is not turned into a stub either -- the importing unit lists the real function with `#! fn` and proves it again
                stats["R93"] = stats.get("R93", 0) + 1
                continue
            if kind == "fn":
                if ("fn", part.file, part.name) in seen:
                    if stub:
                        continue
                    raise ExtractError("function %s::%s is both imported as a stub and listed for proof" % (part.file, part.name))
                seen.add(("fn", part.file, part.name))
            if kind == "specs":
                sub_path = os.path.join(os.path.dirname(unit_path), part["unit"] + ".vu")
                emit("// ---- spec items copied verbatim from unit %s: %s ----\n" % (part["unit"], " ".join(part["names"])), {"origin": "gen"})
                emit(pull_specs(sub_path, part["names"]), {"origin": "unit-raw", "file": sub_path, "line": 0})
            elif kind == "use":
                sub_path = os.path.join(os.path.dirname(unit_path), part["unit"] + ".vu")
                sub = parse_unit(sub_path)
                emit("// ---- contracts imported from unit %s (proved there; bodies replaced by external_body stubs) ----\n" % part["unit"], {"origin": "gen"})
                drop_stubs.append(part.get("without", []))
                process(sub, sub_path, True)
                drop_stubs.pop()
                emit("// ---- end of unit %s ----\n" % part["unit"], {"origin": "gen"})
            elif kind == "raw":
                # R93: the `without=` lists of ALL enclosing `#! use` imports apply (a nested import inherits the list of its importer)
                dropped = [n for l in drop_stubs for n in l]
                emit((rule_R93(part.get("text", ""), dropped, stats) if stub and dropped else part.get("text", "")) + "\n", {"origin": "unit-raw", "file": unit_path, "line": part["line"]})
            elif kind == "consts":
                src, items = items_of(part["file"])
                names = part["names"]
                for it in items:
                    if it.kind == "const" and (it.name in names or names == ["*"]) and ("const", it.name) not in seen:
                        if names == ["*"] and re.search(r"&str|char|\[", it.text):
                            continue     # not emitted, so not `seen`: a later `#! consts FILE NAME` can still ask for it by name
                        seen.add(("const", it.name))
                        t = rule_R0(it.text, stats)
                        t = re.sub(r"^\s*(pub\s+)?", "pub ", t, count=1)
                        if re.match(r"pub\s+static\b", t):
                            t = rule_R12(t, stats)
                        t = rule_R51(t, stats)
                        emit(t + "\n", {"origin": "code", "file": part["file"], "line": it.line, "fn": it.name})
                missing = [n for n in names if n != "*" and not any(it.kind == "const" and it.name == n for it in items)]
                if missing:
                    raise ExtractError("consts %s not found in %s" % (missing, part["file"]))
            elif kind == "item":
                src, items = items_of(part["file"])
                c = [it for it in items if it.kind in ("struct", "enum", "type") and it.name == part["name"]]
                if not c:
                    raise ExtractError("item %s not found in %s" % (part["name"], part["file"]))
                t = rule_R0(c[0].text, stats)
                t = re.sub(r"^\s*(pub\s+)?", "pub ", t, count=1)
                t = re.sub(r"(\n\s*)(?=[a-z_]+\s*:)", r"\1pub ", t) if c[0].kind == "struct" and part["opts"].get("pubfields", "1") == "1" else t
                t = t.replace("pub pub ", "pub ")
                pre = part["opts"].get("attrs", "")
                if pre:
                    t = "".join("#[%s]\n" % a for a in pre.split(";")) + t
                emit(t + "\n", {"origin": "code", "file": part["file"], "line": c[0].line, "fn": part["name"]})
            elif kind == "fn":
                fs = part
                try:
                    it, header, segs = splice_fn(fs, stats, canary and not stub, stub)
                except ExtractError as e:
                    # a function marked `helper=1` (an internal helper whose contract only serves its callers) may be removed by
                    # a refactoring: it is then left out, and the callers, rewritten to do without it, are judged by their own
                    # contracts. A missing function without that mark stays an extraction error (the unit is undecided).
                    if fs.opts.get("helper") == "1" and "not found" in str(e):
                        stats.setdefault("notes", []).append({"fn": fs.name, "what": "helper %s::%s no longer exists: left out, its callers are judged by their own contracts" % (fs.file, fs.name)})
                        continue
                    raise
                qn = fs.name
                meta_base = {"file": fs.file, "fn": qn, "tags": fs.tags}
                wrap_open = wrap_close = ""
                if it.owner:
                    hdr = it.impl_header
                    if getattr(it, "is_trait_impl", False):
                        if "R10" in fs.opts.get("rules", ""):
                            # impl<'a> Iterator for X<'a>  ->  impl<'a> X<'a>
                            hdr = re.sub(r"^(impl\s*(<[^>]*>)?)\s*.*?\bfor\b\s*", r"\1 ", hdr, flags=re.S)
                        # else keep the trait impl header as is
                    wrap_open, wrap_close = hdr + " {\n", "}\n"
                # constants / statics of the same source file that the function text refers to and that no directive has
                # copied yet are copied automatically (a refactoring that introduces a lookup table must not make the unit
                # uncompilable)
                if not stub:
                    src_f, items_f = items_of(fs.file)
                    used = set(t.text for t in lex(it.text) if t.kind == "ident" and re.match(r"^[A-Z][A-Z0-9_]{2,}$", t.text))
                    for ci in items_f:
                        if ci.kind == "const" and ci.name in used and ("const", ci.name) not in seen:
                            seen.add(("const", ci.name))
                            tci = rule_R0(ci.text, stats)
                            tci = re.sub(r"^\s*(pub\s+)?", "pub ", tci, count=1)
                            if re.match(r"pub\s+static\b", tci) and "rule_R12" in globals():
                                tci = rule_R12(tci, stats)
                            if "rule_R51" in globals():
                                tci = rule_R51(tci, stats)
                            emit(tci + "\n", {"origin": "code", "file": fs.file, "line": ci.line, "fn": ci.name})
                emit(wrap_open + header, {"origin": "gen"})
                # code segments carry source line numbers
                line = it.line
                for text, org in segs:
                    if org[0] == "code":
                        emit(text, dict(meta_base, origin="stub" if stub else "code", line=line, rewritten=True))
                        # line tracking is approximate after rewrites; exact when no rule changed line counts
                        line += text.count("\n")
                    else:
                        emit(text, dict(meta_base, origin="spec", what=org[1]))
                emit("\n" + wrap_close, {"origin": "gen"})
                if stub:
                    continue
                fns.append({"file": fs.file, "fn": qn, "tags": fs.tags, "line": it.line,
                            "sha256": hashlib.sha256(it.text.encode()).hexdigest(),
                            "rules": fs.opts.get("rules", ""), "has_spec": bool(fs.spec.strip()),
                            "nloops": len(fs.loops)})
    process(unit, unit_path, False)
    emit("\n} // verus!\nfn main() {}\n", {"origin": "gen"})
    # flatten to lines: every generated line is attributed to the chunk(s) overlapping it
    gen = "".join(t for t, _ in out)
    chunks = []
    pos = 0
    for t, meta in out:
        chunks.append((pos, pos + len(t), meta, t))
        pos += len(t)
    fixed = []
    ci = 0
    ls = 0
    for ln in gen.split("\n"):
        le = ls + len(ln) + 1
        cands = []
        k = ci
        while k < len(chunks) and chunks[k][0] < le:
            if chunks[k][1] > ls:
                cs, ce, meta, t = chunks[k]
                m = dict(meta)
                if meta.get("origin") == "code" and "line" in meta:
                    m["line"] = meta["line"] + t[:max(0, ls - cs)].count("\n")
                # ignore chunks contributing only whitespace to this line
                if t[max(0, ls - cs):le - cs].strip() or not cands:
                    cands.append(m)
            if chunks[k][1] <= le:
                ci = k
            k += 1
        pick = next((m for m in cands if m.get("origin") == "code"), None) or \
            next((m for m in cands if m.get("origin") == "spec"), cands[0] if cands else {"origin": "gen"})
        fixed.append(pick)
        ls = le
    warnings = stats.pop("warnings", [])
    stats.pop("notes", None)
    info = {"unit": unit["name"], "functions": fns, "rewrite_counts": stats, "warnings": warnings}
    return gen, fixed, info


def main():
    import argparse
    ap = argparse.ArgumentParser()
    ap.add_argument("unit")
    ap.add_argument("-o", "--out", required=True)
    ap.add_argument("--prelude", action="append", default=[])
    a = ap.parse_args()
    gen, linemap, info = build(a.unit, a.prelude)
    open(a.out, "w").write(gen)
    json.dump({"linemap": linemap, "info": info}, open(a.out + ".map.json", "w"))
    print(json.dumps(info["rewrite_counts"]))


if __name__ == "__main__":
    main()
