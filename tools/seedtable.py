#!/usr/bin/env python3
"""prints a markdown table of the seeded changes and what the checks reported (from seeded/*/meta.json)"""
import json, os, glob
ROOT = os.path.dirname(os.path.dirname(os.path.abspath(__file__)))
rows = []
for d in sorted(glob.glob(os.path.join(ROOT, "seeded", "*"))):
    m = json.load(open(os.path.join(d, "meta.json")))
    sid = os.path.basename(d)
    res = m.get("check_results", {})
    out = []
    for k, r in sorted(res.items()):
        if not k.endswith("/quick") and not k.endswith("/thorough"):
            continue
        viol = [l for l in r.get("lines", []) if l.startswith("VIOLATION")]
        und = [l for l in r.get("lines", []) if l.startswith("UNDECIDED")]
        what = "exit %d" % r["rc"]
        if viol:
            what += ", %d VIOLATION line(s)%s" % (len(viol), " (no-failing-input-found)" if all("no-failing-input-found" in v for v in viol) else " (with replayed counterexample)")
        if und:
            what += ", undecided: " + und[0].split("reason=")[-1][:70]
        out.append("%s: %s" % (k, what))
    rows.append("| %s | %s | %s | %s |" % (sid, m.get("summary", "").replace("|", "/")[:160], m.get("needs", "").replace("|", "/")[:120], "; ".join(out) or "not run"))
print("| seeded change | what was changed | needs | result of ./check |")
print("|---|---|---|---|")
print("\n".join(rows))
