#!/usr/bin/env python3
"""regenerates section A.7 of DESIGN.md (table of seeded changes and what the quick check of their own property reported)
from seeded/*/meta.json; the prose between the heading and the table is kept except for the numbers on the marked lines"""
import json, glob, os, re
ROOT = os.path.dirname(os.path.dirname(os.path.abspath(__file__)))
rows = []; stat = {'detected': 0, 'undecided': 0, 'missed': 0}; lists = {'undecided': [], 'missed': []}
key = lambda x: (os.path.basename(x).split('-')[0], int(os.path.basename(x).split('-m')[1]))
for d in sorted(glob.glob(os.path.join(ROOT, 'seeded', '*')), key=key):
    sid = os.path.basename(d); m = json.load(open(d + '/meta.json')); prop = m['property']
    r = m.get('check_results', {}).get(prop + '/quick')
    if not r:
        rows.append("| %s | %s | not run | |" % (sid, m['summary'][:150])); continue
    viol = [l for l in r['lines'] if l.startswith('VIOLATION')]
    und = [l for l in r['lines'] if l.startswith('UNDECIDED')]
    if r['rc'] == 1:
        res = '**detected**'; how = 'replayed counterexample' if any('no-failing-input-found' not in v for v in viol) else 'named obligation (no-failing-input-found)'; stat['detected'] += 1
    elif r['rc'] == 2:
        res = 'undecided (exit 2)'; how = (und[0].split('reason=')[-1][:150] if und else ''); stat['undecided'] += 1; lists['undecided'].append(sid)
    else:
        res = 'missed (exit 0)'; how = ''; stat['missed'] += 1; lists['missed'].append(sid)
    rows.append("| %s | %s | %s | %s |" % (sid, m['summary'].replace('|', '/').replace('\n', ' ')[:150], res, how.replace('|', '/')))
table = "| seeded change | what was changed (agent's words, shortened) | `./check <prop> --tier quick` | how |\n|---|---|---|---|\n" + "\n".join(rows)
p = os.path.join(ROOT, 'DESIGN.md'); s = open(p).read()
a = s.index('### A.7 Seeded changes')
t0 = s.index('| seeded change |', a)
mm = re.search(r'\n(## |### )', s[t0:])
t1 = t0 + mm.start() if mm else len(s)
head = s[a:t0]
head = re.sub(r'\*\*\d+ detected\*\*, \d+ undecided \(exit 2, never reported as "held"\), \d+ missed\.', '**%d detected**, %d undecided (exit 2, never reported as "held"), %d missed.' % (stat['detected'], stat['undecided'], stat['missed']), head)
head = re.sub(r'^\d+ changes were produced', '%d changes were produced' % len(rows), head, flags=re.M)
head = re.sub(r'Still missed \([^)]*\)', 'Still missed (%s)' % ", ".join(lists['missed']), head)
head = re.sub(r'Undecided \([^)]*\)', 'Undecided (%s)' % ", ".join(lists['undecided']), head)
s = s[:a] + head + table + "\n" + s[t1:]
open(p, 'w').write(s)
print(stat, lists)
