"""Minimal Rust lexer + item finder used by the extractor.

Only what the extractor needs: it recognises comments, string/char/byte/raw-string
literals, lifetimes, identifiers, numbers and single punctuation characters, and it
tracks brace nesting so that `fn` items (free or inside `impl` blocks), `struct`,
`enum` and `const` items can be copied out of a source file *verbatim*.
"""
import re
from collections import namedtuple

Tok = namedtuple("Tok", "kind text start end line")
# kinds: ident, num, str, char, life, punct, comment, ws

_ident_re = re.compile(r"[A-Za-z_][A-Za-z0-9_]*")
_num_re = re.compile(r"[0-9][0-9A-Za-z_]*(\.[0-9][0-9A-Za-z_]*)?([eE][+-]?[0-9_]+)?")


def lex(src, keep_trivia=False):
    toks = []
    i, n, line = 0, len(src), 1
    while i < n:
        c = src[i]
        st = i
        if c in " \t\r\n":
            while i < n and src[i] in " \t\r\n":
                i += 1
            kind = "ws"
        elif src.startswith("//", i):
            j = src.find("\n", i)
            i = n if j < 0 else j
            kind = "comment"
        elif src.startswith("/*", i):
            depth, i = 1, i + 2
            while i < n and depth:
                if src.startswith("/*", i):
                    depth += 1; i += 2
                elif src.startswith("*/", i):
                    depth -= 1; i += 2
                else:
                    i += 1
            kind = "comment"
        elif c == '"' or (c == 'b' and src.startswith('b"', i)):
            i += 2 if c == 'b' else 1
            while i < n and src[i] != '"':
                i += 2 if src[i] == '\\' else 1
            i += 1
            kind = "str"
        elif (c == 'r' and re.match(r'r#*"', src[i:i + 8])) or (c == 'b' and re.match(r'br#*"', src[i:i + 9])):
            m = re.match(r'b?r(#*)"', src[i:])
            closing = '"' + m.group(1)
            j = src.find(closing, i + m.end())
            i = n if j < 0 else j + len(closing)
            kind = "str"
        elif c == "'" or (c == 'b' and src.startswith("b'", i)):
            p = i + (2 if c == 'b' else 1)
            # lifetime: 'ident not followed by closing quote
            m = _ident_re.match(src, p)
            if c == "'" and m and not src.startswith("'", m.end()):
                i = m.end()
                kind = "life"
            else:
                if src[p] == '\\':
                    p += 2
                    while p < n and src[p] != "'":
                        p += 1
                else:
                    # one (possibly multi-byte) char
                    p += 1
                i = p + 1
                kind = "char"
        elif c.isalpha() or c == '_':
            m = _ident_re.match(src, i)
            i = m.end()
            kind = "ident"
        elif c.isdigit():
            m = _num_re.match(src, i)
            i = m.end()
            # do not swallow the `..` of a range: 0..length lexes num(0) punct(.) punct(.)
            t = src[st:i]
            if ".." in t:
                i = st + t.index("..")
            elif t.endswith(".") :
                i -= 1
            kind = "num"
        else:
            i += 1
            kind = "punct"
        text = src[st:i]
        if keep_trivia or kind not in ("ws", "comment"):
            toks.append(Tok(kind, text, st, i, line))
        line += text.count("\n")
    return toks


def match_close(toks, i):
    """toks[i] is an opening ( [ {; return index of the matching closer."""
    pairs = {"(": ")", "[": "]", "{": "}"}
    op = toks[i].text
    cl = pairs[op]
    d = 0
    for j in range(i, len(toks)):
        t = toks[j]
        if t.kind != "punct":
            continue
        if t.text == op:
            d += 1
        elif t.text == cl:
            d -= 1
            if d == 0:
                return j
    raise ValueError("unbalanced %s at line %d" % (op, toks[i].line))


class Item:
    def __init__(self, kind, name, owner, impl_header, start, sig_end, body_start, end, line, src):
        self.kind = kind            # fn | struct | enum | const | type
        self.name = name
        self.owner = owner          # type name for methods, else None
        self.impl_header = impl_header  # text of `impl<..> X<..>` (no brace) for methods
        self.start, self.sig_end, self.body_start, self.end = start, sig_end, body_start, end
        self.line = line
        self.src = src

    @property
    def text(self):
        return self.src[self.start:self.end]

    @property
    def sig(self):
        return self.src[self.start:self.sig_end]

    @property
    def body(self):
        return self.src[self.body_start:self.end]


def _impl_type(header_toks):
    """type name an impl block is for: `impl<'a> Tr for X<'a>` -> X ; `impl<'a> X<'a>` -> X"""
    names = [t for t in header_toks]
    # find `for` at angle depth 0
    d = 0
    idx_for = None
    for k, t in enumerate(names):
        if t.kind == "punct" and t.text == "<":
            d += 1
        elif t.kind == "punct" and t.text == ">":
            d -= 1
        elif t.kind == "ident" and t.text == "for" and d == 0:
            idx_for = k
    seq = names[idx_for + 1:] if idx_for is not None else names[1:]
    # skip generics right after impl
    d = 0
    out = None
    for t in seq:
        if t.kind == "punct" and t.text == "<":
            d += 1
        elif t.kind == "punct" and t.text == ">":
            d -= 1
        elif t.kind == "ident" and d == 0 and t.text not in ("impl", "where", "dyn"):
            out = t.text  # last path segment at depth 0 wins
        if t.kind == "ident" and t.text == "where" and d == 0:
            break
    return out, idx_for is not None


def find_items(src):
    """Return list of Item for fn/struct/enum/const/type at module level and fns in impl blocks.
    `mod tests { .. }` blocks are skipped."""
    toks = lex(src)
    items = []

    def scan(lo, hi, owner, impl_header, is_trait_impl):
        i = lo
        while i < hi:
            t = toks[i]
            if t.kind == "punct" and t.text == "#" and i + 1 < hi and toks[i + 1].text == "[":
                i = match_close(toks, i + 1) + 1
                continue
            if t.kind == "punct" and t.text == "#" and i + 2 < hi and toks[i + 1].text == "!" and toks[i + 2].text == "[":
                i = match_close(toks, i + 2) + 1
                continue
            if t.kind != "ident":
                i += 1
                continue
            # start of an item: optional visibility
            start_tok = i
            j = i
            if toks[j].text == "pub":
                j += 1
                if toks[j].text == "(":
                    j = match_close(toks, j) + 1
            while toks[j].kind == "ident" and toks[j].text in ("const", "unsafe", "async", "extern") and toks[j + 1].kind == "ident" and toks[j + 1].text in ("fn", "unsafe", "async", "extern"):
                j += 1
            kw = toks[j].text if toks[j].kind == "ident" else None
            if kw == "fn":
                name = toks[j + 1].text
                # signature ends at first `{` at paren/bracket depth 0, or `;`
                k = j + 2
                while True:
                    tk = toks[k]
                    if tk.kind == "punct" and tk.text in "([":
                        k = match_close(toks, k) + 1
                        continue
                    if tk.kind == "punct" and tk.text in "{;":
                        break
                    k += 1
                if toks[k].text == ";":
                    items.append(Item("fn", name, owner, impl_header, toks[start_tok].start, toks[k].start, toks[k].start, toks[k].end, toks[start_tok].line, src))
                    i = k + 1
                    continue
                e = match_close(toks, k)
                it = Item("fn", name, owner, impl_header, toks[start_tok].start, toks[k].start, toks[k].start, toks[e].end, toks[start_tok].line, src)
                it.is_trait_impl = is_trait_impl
                items.append(it)
                i = e + 1
                continue
            if kw in ("struct", "enum", "union"):
                name = toks[j + 1].text
                k = j + 2
                while not (toks[k].kind == "punct" and toks[k].text in "{;("):
                    k += 1
                if toks[k].text == "(":
                    k = match_close(toks, k) + 1
                    while toks[k].text != ";":
                        k += 1
                    e = k
                elif toks[k].text == "{":
                    e = match_close(toks, k)
                else:
                    e = k
                items.append(Item(kw, name, None, None, toks[start_tok].start, toks[k].start, toks[k].start, toks[e].end, toks[start_tok].line, src))
                i = e + 1
                continue
            if kw in ("const", "static", "type") and toks[j + 1].kind == "ident" and toks[j + 1].text != "fn":
                name = toks[j + 1].text
                k = j + 2
                while not (toks[k].kind == "punct" and toks[k].text == ";"):
                    if toks[k].kind == "punct" and toks[k].text in "([{":
                        k = match_close(toks, k)
                    k += 1
                items.append(Item("const" if kw != "type" else "type", name, None, None, toks[start_tok].start, toks[k].start, toks[k].start, toks[k].end, toks[start_tok].line, src))
                i = k + 1
                continue
            if kw in ("impl", "trait"):
                k = j + 1
                while not (toks[k].kind == "punct" and toks[k].text == "{"):
                    k += 1
                e = match_close(toks, k)
                header = src[toks[j].start:toks[k].start].strip()
                tyname, trait_impl = _impl_type(toks[j:k])
                scan(k + 1, e, tyname, header, trait_impl)
                i = e + 1
                continue
            if kw == "mod":
                k = j + 2
                if toks[k].text == "{":
                    i = match_close(toks, k) + 1  # skip inline modules (tests)
                else:
                    i = k + 1
                continue
            if kw in ("use", "extern"):
                k = j
                while toks[k].text != ";":
                    k += 1
                i = k + 1
                continue
            if kw == "macro_rules":
                k = j
                while toks[k].text not in "{(":
                    k += 1
                i = match_close(toks, k) + 1
                continue
            i += 1

    scan(0, len(toks), None, None, False)
    return items


def norm(text):
    """whitespace/comment-insensitive normal form of a code fragment"""
    return " ".join(t.text for t in lex(text))
