"""Plugin rule module: R120 "nom desugaring".

A function whose body is a nom 7 combinator expression applied to its input,

    fn f(input: &[u8], ..) -> IResult<&[u8], T> { [let NAME = COMB;]*  COMB(input) }

is rewritten, by structural recursion over COMB, into first-order Rust (nested `match`, one `loop` per repetition
combinator) that Verus can verify.  Every translation below is the body of the combinator in
~/.cargo/registry/src/*/nom-7.1.3/src (branch/mod.rs, sequence/mod.rs, combinator/mod.rs, multi/mod.rs) with
`self.N.parse(x)` / `f.parse(x)` replaced by the translation of the argument parser applied to `x`, `?` written as
`match .. { Ok(..) => .., Err(e) => Err(e) }` and a closure-level `return X` inside a repetition loop written as
`vx_nK_ret = Some(error); break;` (error exits) or `break;` (the `Ok((i, res))` exit), followed after the loop by
`match vx_nK_ret { Some(e) => Err(e), None => Ok((vx_nK_i, vx_nK_res)) }`.

D[p](i), `i` an identifier holding the (Copy) input slice, nK the fresh name of this node:

  alt((p1,..,pn))        match D[p1](i) { Err(nom::Err::Error(_)) => { match D[p2](i) { .. Err(nom::Err::Error(nK_e)) => { Err(nom::Err::Error(nK_e)) } nK_r => { nK_r } } } nK_r => { nK_r } }
                         (same input for every alternative; Ok / Failure / Incomplete returned as they are; when all fail the result is an
                         `Err::Error`: for nom's default error type `or` and `append` both return the LAST alternative's error, which is what is emitted)
  map(p, f)              match D[p](i) { Ok((nK_i, nK_o)) => { Ok((nK_i, F(nK_o))) } Err(nK_e) => { Err(nK_e) } }
                         F(x) = `PATH(x)` for a constructor/function path, `{ let PAT = x; BODY }` for a closure `|PAT| BODY`
  map_res(p, f)          match D[p](i) { Ok((nK_i, nK_o)) => { match F(nK_o) { Ok(nK_v) => { Ok((nK_i, nK_v)) } Err(_) => { Err(nom::Err::Error(NomError::new(i, ErrorKind::MapRes))) } } } Err(nK_e) => { Err(nK_e) } }
  value(v, p)            match D[p](i) { Ok((nK_i, _)) => { Ok((nK_i, v)) } Err(nK_e) => { Err(nK_e) } }      (v a literal/constructor expression: `val.clone()` == v)
  opt(p)                 match D[p](i) { Ok((nK_i, nK_o)) => { Ok((nK_i, Some(nK_o))) } Err(nom::Err::Error(_)) => { Ok((i, None)) } Err(nK_e) => { Err(nK_e) } }
  cond(b, p)             if b { match D[p](i) { Ok((nK_i, nK_o)) => { Ok((nK_i, Some(nK_o))) } Err(nK_e) => { Err(nK_e) } } } else { Ok((i, None)) }
  not(p)                 match D[p](i) { Ok(_) => { Err(nom::Err::Error(NomError::new(i, ErrorKind::Not))) } Err(nom::Err::Error(_)) => { Ok((i, ())) } Err(nK_e) => { Err(nK_e) } }
  pair / separated_pair / preceded / terminated / delimited / tuple((..))
                         the parsers in order, each on the rest of the previous one (`match D[a](i) { Ok((nK_i1, nK_o1)) => { match D[b](nK_i1) {..} } Err(nK_e) => { Err(nK_e) } }`),
                         result `Ok((last rest, OUT))` with OUT the documented output (o2 / (o1, o2) / (o1, o3) / o1 / o2 / (o1,..,on))
  separated_list1(s, p)  nom's loop: first element mandatory; then `loop { let nK_len = nK_i.len(); match D[s](nK_i) { Err(Error(_)) => break [Ok((nK_i, nK_res))], Err(e) => [Err(e)],
                         Ok((nK_i1, _)) => { if nK_i1.len() == nK_len { [Err(Error(SeparatedList))] } match D[p](nK_i1) { Err(Error(_)) => break [Ok((nK_i, nK_res))], Err(e) => [Err(e)],
                         Ok((nK_i2, nK_o)) => { nK_res.push(nK_o); nK_i = nK_i2; } } } } }`   (the rest handed back is the input BEFORE the last separator)
  many0(p)               `loop { let nK_len = nK_i.len(); match D[p](nK_i) { Err(Error(_)) => [Ok((nK_i, nK_res))], Err(e) => [Err(e)], Ok((nK_i1, nK_o)) => { if nK_i1.len() == nK_len { [Err(Error(Many0))] } nK_i = nK_i1; nK_res.push(nK_o); } } }`
  count(p, n)            `while nK_k < n { match D[p](nK_i) { Ok((nK_i1, nK_o)) => { push; nK_i = nK_i1; } Err(Error(e)) => [Err(Error(e))], Err(e) => [Err(e)] } nK_k += 1; }` then Ok((nK_i, nK_res))
  LEAF(args)             `vx_nom_LEAF(args, i)` for char, tag, tag_no_case, one_of, none_of, take   (TRUSTED shim functions declared by the unit)
  LEAF                   `vx_nom_LEAF(i)` for multispace0, multispace1, space0, space1, digit1, i32, i64, u64, u32, double, be_u32, ... (TRUSTED shims)
  name / a::b::name      `name(i)`: a parser function of the crate (contract from the unit); a bare name that is a keyword of Verus' expression
                         syntax (exists, forall, choose) is written as a raw identifier, `r#exists(i)`: the same Rust function, but Verus would
                         otherwise read `exists(..)` as a quantifier (parser.rs `fn exists`, unit jpexpr)
  |x| BODY               `{ let x = i; BODY }`   (inline closure parser, e.g. `|i| expr_or(i, true)`)
  NAME (a `let NAME = COMB;` local of the function)   D[COMB](i)

Anything else (unknown combinator, `let` statements that are not parser definitions, closures containing `return`/`?`, an input parameter that is not a shared
reference) makes the rule NOT apply: the text is returned unchanged, the extractor records "rule R120 no longer applies" and the unit is undecided - never a wrong proof.
An unknown bare identifier is taken for a crate parser function: if it is in fact a nom parser the generated call does not compile and the unit is undecided too.

A multi-line D[p](x) used as a scrutinee is first bound: `{ let vx_nK_p = D[p](x); match vx_nK_p { .. } }` (`_p1.._pn` for the n-th alternative /
sequence member, `_pf` / `_ps` / `_pe` for first element / separator / element of a repetition), which gives statement anchors between the stages.

Naming: nodes are numbered 1, 2, .. in the order in which their text is emitted (K); all locals of node K are `vx_nK_*` (`_i`, `_i1`, `_i2`, `_o`, `_o1`.., `_e`, `_r`,
`_res`, `_ret`, `_len`, `_k`, `_v`).  The element parser of separated_list1 is emitted twice (first element, loop body), as in nom's source, under two numbers.
Every match arm is a block `PAT => { .. }`, so proof text can be anchored with `#!! after 1 `Ok((vx_n3_i, vx_n3_o)) => {``; loops count for `#!! loop N` in text order.
The generated text needs in the unit: `mod nom { enum Err<E> { Incomplete(..), Error(E), Failure(E) } }`, `NomError::new(input, ErrorKind::X)`, `IResult`.
"""
import os, sys, re
sys.path.insert(0, os.path.dirname(os.path.abspath(__file__)))
from rustlex import lex, match_close


class _NA(Exception):
    """rule not applicable"""


LEAF0 = {"multispace0", "multispace1", "space0", "space1", "digit0", "digit1", "alpha0", "alpha1", "alphanumeric0", "alphanumeric1",
         "hex_digit0", "hex_digit1", "line_ending", "newline", "crlf", "tab",
         "i8", "i16", "i32", "i64", "i128", "u8", "u16", "u32", "u64", "u128", "double", "float",
         "be_u8", "be_u16", "be_u32", "be_u64", "be_i32", "be_i64", "le_u32", "le_u64", "eof", "rest"}
LEAFN = {"char": 1, "tag": 1, "tag_no_case": 1, "one_of": 1, "none_of": 1, "take": 1}
# crate parser functions whose bare name is a keyword of the Verus expression syntax are called through a raw identifier (`exists(i)` -> `r#exists(i)`)
VERUS_KW = {"exists", "forall", "choose"}
COMBS = {"alt", "map", "map_res", "value", "opt", "cond", "not", "pair", "separated_pair", "preceded", "terminated", "delimited",
         "tuple", "separated_list1", "many0", "count"}


def _ind(text, n):
    pad = " " * n
    return "\n".join((pad + l if l.strip() else l) for l in text.split("\n"))


class _Gen:
    def __init__(self, src, code, locals_, errty):
        self.src, self.code, self.locals, self.errty = src, code, locals_, errty
        self.k = 0
        self.depth = 0

    def fresh(self):
        self.k += 1
        return "vx_n%d" % self.k

    def text(self, lo, hi):
        return self.src[self.code[lo].start:self.code[hi - 1].end]

    # ---- token helpers
    def split(self, lo, hi):
        """split code[lo:hi] at top-level commas; a closure's `|params|` may contain commas; trailing comma allowed"""
        code = self.code
        out, st, j = [], lo, lo
        while j < hi:
            t = code[j]
            if j == st and (t.text == "|" or (t.text == "move" and code[j + 1].text == "|")):
                j = j + 1 if t.text == "|" else j + 2
                while j < hi and code[j].text != "|":
                    if code[j].kind == "punct" and code[j].text in "([{":
                        j = match_close(code, j)
                    j += 1
                j += 1
                continue
            if t.kind == "punct" and t.text in "([{":
                j = match_close(code, j) + 1
                continue
            if t.kind == "punct" and t.text == ",":
                out.append((st, j)); st = j + 1
            j += 1
        if st < hi:
            out.append((st, hi))
        return out

    def closure(self, lo, hi):
        """code[lo:hi] is `[move] |PARAMS| BODY` -> (params text, body text) or None"""
        code = self.code
        j = lo
        if code[j].text == "move":
            j += 1
        if code[j].text != "|":
            return None
        p0 = j + 1
        j = p0
        while j < hi and code[j].text != "|":
            if code[j].kind == "punct" and code[j].text in "([{":
                j = match_close(code, j)
            j += 1
        if j >= hi or j == p0 or j + 1 >= hi:
            raise _NA("closure without parameter or body")
        for t in code[j + 1:hi]:
            if (t.kind == "ident" and t.text in ("return", "await", "yield")) or (t.kind == "punct" and t.text == "?"):
                raise _NA("closure body with return/?")
        # a single parameter (one pattern, optional type): no top-level comma between the bars
        d = 0
        for t in code[p0:j]:
            if t.kind == "punct" and t.text in "([{<":
                d += 1
            elif t.kind == "punct" and t.text in ")]}>":
                d -= 1
            elif t.text == "," and d == 0:
                raise _NA("closure with several parameters")
        return self.text(p0, j), self.text(j + 1, hi)

    def path(self, lo, hi):
        """code[lo:hi] is `a::b::c` -> list of segments or None"""
        code = self.code
        segs, j = [], lo
        while j < hi:
            if code[j].kind != "ident":
                return None
            segs.append(code[j].text); j += 1
            if j == hi:
                return segs
            if j + 1 < hi and code[j].text == ":" and code[j + 1].text == ":":
                j += 2
                continue
            return None
        return None

    def apply_fn(self, lo, hi, x):
        """F(x) for the function argument of map/map_res"""
        c = self.closure(lo, hi)
        if c is not None:
            return "{ let %s = %s; %s }" % (c[0], x, c[1])
        if self.path(lo, hi) is None:
            raise _NA("mapping function is neither a path nor a closure")
        return "%s(%s)" % (self.text(lo, hi), x)

    def pure_value(self, lo, hi):
        """value(v, ..): v must be built from paths, literals, parentheses and commas only (so that re-evaluation == clone)"""
        for t in self.code[lo:hi]:
            if t.kind in ("ident", "num", "str", "char"):
                if t.kind == "ident" and t.text in ("return", "break", "continue", "loop", "while", "for", "match", "if", "unsafe", "move"):
                    raise _NA("value(v, ..) with a computed v")
                continue
            if t.kind == "punct" and t.text in "(),:-":
                continue
            raise _NA("value(v, ..) with a computed v")
        return self.text(lo, hi)

    # ---- the translation
    @staticmethod
    def mt(var, d, arms):
        """`match D { arms }`; a multi-line D is first bound to the local `var` (statement anchor `let var =`)"""
        if "\n" not in d:
            return "match %s {\n%s\n}" % (d, _ind(arms, 4))
        return "{\n    let %s = %s;\n    match %s {\n%s\n    }\n}" % (var, _ind(d, 4).lstrip(), var, _ind(arms, 8))

    def seq(self, n, parsers, inp, pats, out):
        """parsers in sequence, each on the rest of the previous one; pats[j] = pattern for the j-th output, out = result expression"""
        m = len(parsers)

        def emit(j, cur):
            (lo, hi) = parsers[j]
            d = self.D(lo, hi, cur)
            ri = "%s_i%d" % (n, j + 1)
            inner = emit(j + 1, ri) if j + 1 < m else "Ok((%s, %s))" % (ri, out)
            arms = "Ok((%s, %s)) => {\n%s\n}\nErr(%s_e) => { Err(%s_e) }" % (ri, pats[j], _ind(inner, 4), n, n)
            return self.mt("%s_p%d" % (n, j + 1), d, arms)
        return emit(0, inp)

    def D(self, lo, hi, inp):
        if hi <= lo:
            raise _NA("empty parser expression")
        self.depth += 1
        if self.depth > 200:
            raise _NA("recursive local parser")
        try:
            return self._D(lo, hi, inp)
        finally:
            self.depth -= 1

    def _D(self, lo, hi, inp):
        code = self.code
        # inline closure parser
        c = self.closure(lo, hi)
        if c is not None:
            self.fresh()
            return "{ let %s = %s; %s }" % (c[0], inp, c[1])
        segs = self.path(lo, hi)
        if segs is not None:
            name = segs[-1]
            if len(segs) == 1 and name in self.locals:
                a, b = self.locals[name]
                return self.D(a, b, inp)
            if name in COMBS or name in LEAFN:
                raise _NA("combinator %s used as a value" % name)
            self.fresh()
            if name in LEAF0:
                return "vx_nom_%s(%s)" % (name, inp)
            if len(segs) == 1 and name in VERUS_KW:
                return "r#%s(%s)" % (name, inp)
            return "%s(%s)" % (self.text(lo, hi), inp)
        # call form PATH ( ARGS )
        if code[hi - 1].text != ")":
            raise _NA("unsupported parser expression")
        j = lo
        while j < hi and code[j].text != "(":
            j += 1
        if j >= hi or match_close(code, j) != hi - 1:
            raise _NA("unsupported parser expression")
        segs = self.path(lo, j)
        if segs is None:
            raise _NA("unsupported parser expression")
        name = segs[-1]
        args = self.split(j + 1, hi - 1)
        n = self.fresh()
        if name in LEAFN:
            if len(args) != LEAFN[name]:
                raise _NA("%s: arity" % name)
            return "vx_nom_%s(%s, %s)" % (name, ", ".join(self.text(a, b) for a, b in args), inp)
        if name not in COMBS:
            raise _NA("unknown combinator %s" % name)
        arity = {"alt": 1, "map": 2, "map_res": 2, "value": 2, "opt": 1, "cond": 2, "not": 1, "pair": 2, "separated_pair": 3, "preceded": 2,
                 "terminated": 2, "delimited": 3, "tuple": 1, "separated_list1": 2, "many0": 1, "count": 2}
        if len(args) != arity[name]:
            raise _NA("%s: arity" % name)
        E = "Err(%s_e) => { Err(%s_e) }" % (n, n)
        EE = "Err(nom::Err::Error(_))"
        P = "%s_p" % n
        if name in ("alt", "tuple"):
            if code[args[0][0]].text != "(" or match_close(code, args[0][0]) != args[0][1] - 1:
                raise _NA("%s: argument is not a tuple" % name)
            ps = self.split(args[0][0] + 1, args[0][1] - 1)
            if not ps:
                raise _NA("%s: empty" % name)
        if name == "alt":
            if len(ps) == 1:
                return self.D(ps[0][0], ps[0][1], inp)

            def emit(j):
                d = self.D(ps[j][0], ps[j][1], inp)
                if j + 1 < len(ps):
                    arms = "%s => {\n%s\n}\n%s_r => { %s_r }" % (EE, _ind(emit(j + 1), 4), n, n)
                else:
                    arms = "Err(nom::Err::Error(%s_e)) => { Err(nom::Err::Error(%s_e)) }\n%s_r => { %s_r }" % (n, n, n, n)
                return self.mt("%s_p%d" % (n, j + 1), d, arms)
            return emit(0)
        if name in ("map", "map_res"):
            d = self.D(args[0][0], args[0][1], inp)
            f = self.apply_fn(args[1][0], args[1][1], "%s_o" % n)
            if name == "map":
                return self.mt(P, d, "Ok((%s_i, %s_o)) => { Ok((%s_i, %s)) }\n%s" % (n, n, n, f, E))
            return self.mt(P, d, "Ok((%s_i, %s_o)) => {\n    match %s {\n        Ok(%s_v) => { Ok((%s_i, %s_v)) }\n"
                                 "        Err(_) => { Err(nom::Err::Error(NomError::new(%s, ErrorKind::MapRes))) }\n    }\n}\n%s"
                           % (n, n, f, n, n, n, inp, E))
        if name == "value":
            v = self.pure_value(args[0][0], args[0][1])
            d = self.D(args[1][0], args[1][1], inp)
            return self.mt(P, d, "Ok((%s_i, _)) => { Ok((%s_i, %s)) }\n%s" % (n, n, v, E))
        if name == "opt":
            d = self.D(args[0][0], args[0][1], inp)
            return self.mt(P, d, "Ok((%s_i, %s_o)) => { Ok((%s_i, Some(%s_o))) }\n%s => { Ok((%s, None)) }\n%s" % (n, n, n, n, EE, inp, E))
        if name == "cond":
            b = self.text(args[0][0], args[0][1])
            d = self.D(args[1][0], args[1][1], inp)
            m = self.mt(P, d, "Ok((%s_i, %s_o)) => { Ok((%s_i, Some(%s_o))) }\n%s" % (n, n, n, n, E))
            return "if %s {\n%s\n} else {\n    Ok((%s, None))\n}" % (b, _ind(m, 4), inp)
        if name == "not":
            d = self.D(args[0][0], args[0][1], inp)
            return self.mt(P, d, "Ok(_) => { Err(nom::Err::Error(NomError::new(%s, ErrorKind::Not))) }\n%s => { Ok((%s, ())) }\n%s" % (inp, EE, inp, E))
        o = lambda j: "%s_o%d" % (n, j)
        if name == "pair":
            return self.seq(n, args, inp, [o(1), o(2)], "(%s, %s)" % (o(1), o(2)))
        if name == "separated_pair":
            return self.seq(n, args, inp, [o(1), "_", o(3)], "(%s, %s)" % (o(1), o(3)))
        if name == "preceded":
            return self.seq(n, args, inp, ["_", o(2)], o(2))
        if name == "terminated":
            return self.seq(n, args, inp, [o(1), "_"], o(1))
        if name == "delimited":
            return self.seq(n, args, inp, ["_", o(2), "_"], o(2))
        if name == "tuple":
            names = [o(j + 1) for j in range(len(ps))]
            return self.seq(n, ps, inp, names, "(%s,)" % names[0] if len(ps) == 1 else "(%s)" % ", ".join(names))
        RET = "let mut %s_ret: Option<%s> = None;" % (n, self.errty)
        FIN = "match %s_ret {\n    Some(%s_e) => { Err(%s_e) }\n    None => { Ok((%s_i, %s_res)) }\n}" % (n, n, n, n, n)
        FAIL = "Err(%s_e) => { %s_ret = Some(%s_e); break; }" % (n, n, n)
        if name == "separated_list1":
            sep, el = args
            d_first = self.D(el[0], el[1], "%s_i" % n)
            d_sep = self.D(sep[0], sep[1], "%s_i" % n)
            d_el = self.D(el[0], el[1], "%s_i1" % n)
            m_el = self.mt("%s_pe" % n, d_el,
                           "%s => { break; }\n%s\nOk((%s_i2, %s_o)) => {\n    %s_res.push(%s_o);\n    %s_i = %s_i2;\n}" % (EE, FAIL, n, n, n, n, n, n))
            m_sep = self.mt("%s_ps" % n, d_sep,
                            "%s => { break; }\n%s\nOk((%s_i1, _)) => {\n"
                            "    if %s_i1.len() == %s_len {\n"
                            "        %s_ret = Some(nom::Err::Error(NomError::new(%s_i1, ErrorKind::SeparatedList)));\n"
                            "        break;\n"
                            "    }\n%s\n}" % (EE, FAIL, n, n, n, n, n, _ind(m_el, 4)))
            after = ("%s_res.push(%s_o);\n%s_i = %s_i1;\n%s\nloop {\n    let %s_len = %s_i.len();\n%s\n}\n%s"
                     % (n, n, n, n, RET, n, n, _ind(m_sep, 4), FIN))
            m_first = self.mt("%s_pf" % n, d_first, "Err(%s_e) => { Err(%s_e) }\nOk((%s_i1, %s_o)) => {\n%s\n}" % (n, n, n, n, _ind(after, 4)))
            return "{\n    let mut %s_i = %s;\n    let mut %s_res = Vec::new();\n%s\n}" % (n, inp, n, _ind(m_first, 4))
        if name == "many0":
            d = self.D(args[0][0], args[0][1], "%s_i" % n)
            m = self.mt("%s_pe" % n, d,
                        "%s => { break; }\n%s\nOk((%s_i1, %s_o)) => {\n"
                        "    if %s_i1.len() == %s_len {\n"
                        "        %s_ret = Some(nom::Err::Error(NomError::new(%s_i, ErrorKind::Many0)));\n"
                        "        break;\n"
                        "    }\n    %s_i = %s_i1;\n    %s_res.push(%s_o);\n}" % (EE, FAIL, n, n, n, n, n, n, n, n, n, n))
            return ("{\n    let mut %s_i = %s;\n    let mut %s_res = Vec::with_capacity(4);\n    %s\n    loop {\n        let %s_len = %s_i.len();\n%s\n    }\n%s\n}"
                    % (n, inp, n, RET, n, n, _ind(m, 8), _ind(FIN, 4)))
        if name == "count":
            d = self.D(args[0][0], args[0][1], "%s_i" % n)
            cnt = self.text(args[1][0], args[1][1])
            m = self.mt("%s_pe" % n, d,
                        "Ok((%s_i1, %s_o)) => {\n    %s_res.push(%s_o);\n    %s_i = %s_i1;\n}\n"
                        "Err(nom::Err::Error(%s_e)) => { %s_ret = Some(nom::Err::Error(%s_e)); break; }\n%s" % (n, n, n, n, n, n, n, n, n, FAIL))
            return ("{\n    let mut %s_i = %s;\n    let %s_cnt: usize = %s;\n    let mut %s_res = Vec::new();\n    %s\n    let mut %s_k: usize = 0;\n"
                    "    while %s_k < %s_cnt {\n%s\n        %s_k += 1;\n    }\n%s\n}"
                    % (n, inp, n, cnt, n, RET, n, n, n, _ind(m, 8), n, _ind(FIN, 4)))
        raise _NA("unknown combinator %s" % name)


def _signature_types(code, body_open):
    """(name of the first parameter, its type text tokens, error type text) of `fn f(input: &T, ..) -> IResult<I, O[, E]>`"""
    j = 0
    while j < body_open and not (code[j].kind == "ident" and code[j].text == "fn"):
        j += 1
    while j < body_open and code[j].text != "(":
        j += 1
    if j >= body_open:
        raise _NA("no parameter list")
    pc = match_close(code, j)
    if not (code[j + 1].kind == "ident" and code[j + 2].text == ":" and code[j + 3].text == "&"):
        raise _NA("first parameter is not `name: &T`")
    if any(t.text == "mut" for t in code[j + 3:j + 6]):
        raise _NA("first parameter is a mutable reference")
    # return type IResult<I, O> / IResult<I, O, E>
    k = pc + 1
    if not (code[k].text == "-" and code[k + 1].text == ">"):
        raise _NA("no return type")
    k += 2
    while k < body_open and code[k].text != "<":
        if code[k].kind == "ident" and code[k].text == "where":
            raise _NA("where clause")
        k += 1
    if k >= body_open or code[k - 1].text != "IResult":
        raise _NA("return type is not IResult<..>")
    # split generic args at depth 0
    d, st, parts = 0, k + 1, []
    m = k
    while m < body_open:
        t = code[m]
        if t.kind == "punct" and t.text in "<([":
            d += 1
        elif t.kind == "punct" and t.text in ">)]" and not (t.text == ">" and code[m - 1].text == "-"):
            d -= 1
            if d == 0:
                parts.append((st, m)); break
        elif t.text == "," and d == 1:
            parts.append((st, m)); st = m + 1
        m += 1
    return code[j + 1].text, parts


def rule_R120(src, stats):
    """nom desugaring: `fn f(input: &T, ..) -> IResult<&T, O> { [let NAME = COMB;]* COMB(input) }` -> the same function with the body replaced by the
    first-order expansion D[COMB](input) of the nom 7 combinator expression (structural recursion; semantics copied from the nom 7.1.3 sources:
    alt / map / map_res / value / opt / cond / not / pair / separated_pair / preceded / terminated / delimited / tuple / separated_list1 / many0 / count;
    leaf parsers become calls of the unit's TRUSTED shims `vx_nom_<leaf>([args,] input)`, crate parser functions are called directly, closures are
    beta-reduced with `let`). Generated locals are `vx_nK_*` (K = emission order of the combinator node), every match arm is a block, loops count
    for `#!! loop N`. Unknown combinator / other body shape -> rule does not apply (unit undecided). See tools/rules_nom.py for the table."""
    code = lex(src)
    try:
        k = 0
        while True:
            tk = code[k]
            if tk.kind == "punct" and tk.text in "([":
                k = match_close(code, k) + 1; continue
            if tk.kind == "punct" and tk.text == "{":
                break
            k += 1
        body_open, body_close = k, match_close(code, k)
        inp_name, tparts = _signature_types(code, body_open)
        if len(tparts) not in (2, 3):
            raise _NA("IResult arity")
        ity = src[code[tparts[0][0]].start:code[tparts[0][1] - 1].end]
        if len(tparts) == 3:
            errty = "nom::Err<%s>" % src[code[tparts[2][0]].start:code[tparts[2][1] - 1].end]
        else:
            errty = "nom::Err<NomError<%s>>" % re.sub(r"'\w+\s*", "", ity)
        # statements: `let NAME = EXPR;`* then the tail expression
        locals_ = {}
        j = body_open + 1
        while code[j].kind == "ident" and code[j].text == "let":
            if not (code[j + 1].kind == "ident" and code[j + 2].text == "="):
                raise _NA("let statement that is not `let NAME = PARSER;`")
            m = j + 3
            while m < body_close and code[m].text != ";":
                if code[m].kind == "punct" and code[m].text in "([{":
                    m = match_close(code, m)
                m += 1
            if m >= body_close:
                raise _NA("unterminated let")
            locals_[code[j + 1].text] = (j + 3, m)
            j = m + 1
        tail_lo, tail_hi = j, body_close
        # tail = PEXPR ( ARG )
        if tail_hi - tail_lo < 4 or code[tail_hi - 1].text != ")":
            raise _NA("body is not `COMB(input)`")
        # find the last top-level `(` group
        m, last = tail_lo, None
        while m < tail_hi:
            if code[m].kind == "punct" and code[m].text in "([{":
                c = match_close(code, m)
                if code[m].text == "(":
                    last = (m, c)
                m = c + 1
                continue
            if code[m].text == ";":
                raise _NA("statements other than parser definitions")
            m += 1
        if last is None or last[1] != tail_hi - 1 or last[0] - 1 < tail_lo or code[last[0] - 1].text != ")":
            raise _NA("body is not `COMB(..)(input)`")
        arg = code[last[0] + 1:last[1]]
        if len(arg) != 1 or arg[0].kind != "ident":
            raise _NA("applied argument is not an identifier")
        g = _Gen(src, code, locals_, errty)
        body = g.D(tail_lo, last[0], arg[0].text)
    except (_NA, ValueError, IndexError):
        return src
    stats["R120"] = stats.get("R120", 0) + g.k
    new_body = "{\n" + _ind(body, 4) + "\n}"
    return src[:code[body_open].start] + new_body + src[code[body_close].end:]


def register(RULES, RULE_DOC, extract_module):
    RULES["R120"] = rule_R120
    RULE_DOC["R120"] = rule_R120.__doc__.strip()
