#!/usr/bin/env python3
"""Engine K / Kb: copy /repo's working tree to a scratch directory, inject the harness
modules (child modules, so private functions are reachable) and contract attributes
mechanically, run `cargo kani`, parse per-harness results, delete the scratch copy."""
import os, re, sys, json, time, hashlib, shutil, subprocess, tempfile
sys.path.insert(0, os.path.dirname(os.path.abspath(__file__)))
from rustlex import find_items

ROOT = os.path.dirname(os.path.dirname(os.path.abspath(__file__)))
REPO = os.environ.get("VERIF_REPO", "/repo")
KANI_DIR = os.path.join(ROOT, "kani")
CACHE = os.path.join(ROOT, ".cache", "kani")
SCRATCH_PARENT = os.environ.get("VERIF_SCRATCH", "/tmp")


def load_config():
    """kani/config.json merged with every kani/harnesses.d/*.json (same schema; lets harness families live in separate files)"""
    cfg = json.load(open(os.path.join(KANI_DIR, "config.json")))
    d = os.path.join(KANI_DIR, "harnesses.d")
    if os.path.isdir(d):
        for f in sorted(os.listdir(d)):
            if f.endswith(".json"):
                x = json.load(open(os.path.join(d, f)))
                have = set(m["name"] for m in cfg["modules"])
                cfg["modules"] += [m for m in x.get("modules", []) if m["name"] not in have]
                cfg["contracts"] += x.get("contracts", [])
                cfg["harnesses"].update(x.get("harnesses", {}))
    only = os.environ.get("VERIF_KANI_MODULES")
    if only:
        keep = set(only.split(",")) | {"verif_kani_spec"}
        cfg["modules"] = [m for m in cfg["modules"] if m["name"] in keep]
        files = set(m["parent"] for m in cfg["modules"])
        cfg["contracts"] = [c for c in cfg["contracts"] if c["file"] in files]
    return cfg


def _mod_file(parent, name):
    d, f = os.path.split(parent)
    if f in ("lib.rs", "mod.rs"):
        return os.path.join(d, name + ".rs")
    return os.path.join(d, f[:-3], name + ".rs")


_src_hash = {}


def harness_fingerprint(h, cfg):
    """hash of everything a harness result depends on: /repo sources, the shared spec module, the module file that
    defines the harness, the injected contracts and the harness' config entry (edits to other harness files do not matter)"""
    if "src" not in _src_hash:
        hh = hashlib.sha256()
        for base, dirs, files in os.walk(os.path.join(REPO, "src")):
            dirs.sort()
            for f in sorted(files):
                p = os.path.join(base, f)
                hh.update(os.path.relpath(p, REPO).encode()); hh.update(open(p, "rb").read())
        for f in ("Cargo.toml", "Cargo.lock"):
            p = os.path.join(REPO, f)
            if os.path.exists(p):
                hh.update(open(p, "rb").read())
        _src_hash["src"] = hh.hexdigest()
    hh = hashlib.sha256(_src_hash["src"].encode())
    hh.update(open(os.path.join(KANI_DIR, "mods", "spec.rs"), "rb").read())
    for m in cfg["modules"]:
        p = os.path.join(KANI_DIR, m["source"])
        txt = open(p).read()
        if re.search(r"\bfn\s+%s\s*\(" % re.escape(h), txt):
            hh.update(txt.encode()); hh.update(m["parent"].encode())
    hh.update(json.dumps(cfg.get("contracts", []), sort_keys=True).encode())
    hh.update(json.dumps(cfg["harnesses"].get(h, {}), sort_keys=True).encode())
    return hh.hexdigest()


def repo_fingerprint():
    h = hashlib.sha256()
    for base, dirs, files in os.walk(os.path.join(REPO, "src")):
        dirs.sort()
        for f in sorted(files):
            p = os.path.join(base, f)
            h.update(p.encode()); h.update(open(p, "rb").read())
    for f in ("Cargo.toml", "Cargo.lock"):
        p = os.path.join(REPO, f)
        if os.path.exists(p):
            h.update(open(p, "rb").read())
    for base, dirs, files in os.walk(KANI_DIR):
        dirs.sort()
        for f in sorted(files):
            h.update(open(os.path.join(base, f), "rb").read())
    return h.hexdigest()


def make_scratch(cfg):
    """returns (dir, injection report)"""
    d = tempfile.mkdtemp(prefix="verif_kani_", dir=SCRATCH_PARENT)
    report = {"modules": [], "contracts": [], "errors": []}
    for name in ("src", "Cargo.toml", "Cargo.lock", "rust-toolchain.toml"):
        s = os.path.join(REPO, name)
        if os.path.isdir(s):
            shutil.copytree(s, os.path.join(d, name))
        elif os.path.exists(s):
            shutil.copy(s, os.path.join(d, name))
    # benches are declared in Cargo.toml: provide empty stubs so cargo metadata is happy
    os.makedirs(os.path.join(d, "benches"), exist_ok=True)
    for b in ("parser", "get_path", "strip_nulls"):
        open(os.path.join(d, "benches", b + ".rs"), "w").write("fn main() {}\n")
    os.makedirs(os.path.join(d, ".cargo"), exist_ok=True)
    open(os.path.join(d, ".cargo", "config.toml"), "w").write("[net]\noffline = true\n")
    for m in cfg["modules"]:
        parent = os.path.join(d, m["parent"])
        if not os.path.exists(parent):
            report["errors"].append("parent file %s missing" % m["parent"]); continue
        with open(parent, "a") as f:
            f.write("\n#[cfg(kani)]\nmod %s;\n" % m["name"])
        dst = os.path.join(d, _mod_file(m["parent"], m["name"]))
        os.makedirs(os.path.dirname(dst), exist_ok=True)
        shutil.copy(os.path.join(KANI_DIR, m["source"]), dst)
        report["modules"].append("%s -> %s" % (m["source"], os.path.relpath(dst, d)))
    for c in cfg.get("contracts", []):
        p = os.path.join(d, c["file"])
        src = open(p).read()
        owner, _, name = c["fn"].rpartition("::")
        items = [it for it in find_items(src) if it.kind == "fn" and it.name == name and (it.owner or "") == owner]
        if not items:
            report["errors"].append("contract target %s not found in %s" % (c["fn"], c["file"])); continue
        it = items[0]
        # insert attribute lines directly above the item (after its existing attributes/doc comments)
        attrs = "".join("#[cfg_attr(kani, %s)]\n" % a for a in c["attrs"])
        src = src[:it.start] + attrs + src[it.start:]
        open(p, "w").write(src)
        report["contracts"].append("%s::%s (+%d attribute lines)" % (c["file"], c["fn"], len(c["attrs"])))
    return d, report


def _parse_block(full, body):
    r = {"harness": full, "status": "unknown", "failed_checks": [], "checks_total": None, "checks_failed": None,
         "time_s": None, "covers_total": None, "covers_unsat": [], "unwinding_failed": False}
    m = re.search(r"VERIFICATION:- (SUCCESSFUL|FAILED)", body)
    if m:
        r["status"] = "success" if m.group(1) == "SUCCESSFUL" else "failed"
    m = re.search(r"\*\* (\d+) of (\d+) failed", body)
    if m:
        r["checks_failed"], r["checks_total"] = int(m.group(1)), int(m.group(2))
    m = re.search(r"\*\* (\d+) of (\d+) cover properties satisfied", body)
    if m:
        r["covers_total"] = int(m.group(2)); r["covers_sat"] = int(m.group(1))
        if r["covers_sat"] < r["covers_total"]:
            r["covers_unsat"].append("%d of %d cover properties not satisfied" % (r["covers_total"] - r["covers_sat"], r["covers_total"]))
    m = re.search(r"Verification Time: ([0-9.]+)s", body)
    if m:
        r["time_s"] = float(m.group(1))
    for fm in re.finditer(r"Failed Checks: (.*)\n\s*File: \"([^\"]*)\", line (\d+), in (\S+)", body):
        desc = fm.group(1).strip()
        r["failed_checks"].append({"desc": desc, "file": fm.group(2), "line": int(fm.group(3)), "fn": fm.group(4)})
        if "unwinding assertion" in desc:
            r["unwinding_failed"] = True
    if "CBMC failed" in body or "out of memory" in body.lower() or "timed out" in body.lower() or "TIMEOUT" in body:
        if r["status"] != "success":
            r["status"] = "tool-error"
    return r


def parse_log(text, harnesses):
    """per-harness result dict; handles both sequential output and the `-j` (Thread N:) output"""
    res = {}
    if re.search(r"^Thread \d+: ", text, flags=re.M):
        cur = {}
        parts = re.split(r"^Thread (\d+): ", text, flags=re.M)
        for i in range(1, len(parts), 2):
            th, body = parts[i], parts[i + 1]
            m = re.match(r"Checking harness (\S+?)\.\.\.\s*$", body.split("\n", 1)[0])
            if m:
                cur[th] = m.group(1)
                rest = body.split("\n", 1)[1] if "\n" in body else ""
                if "VERIFICATION:-" not in rest:
                    continue
                body = rest
            full = cur.get(th)
            if full is None:
                continue
            body = body.split("Manual Harness Summary:")[0]
            res[full.split("::")[-1]] = _parse_block(full, body)
        return res
    parts = re.split(r"^Checking harness (\S+?)\.\.\.\s*$", text, flags=re.M)
    for i in range(1, len(parts), 2):
        full = parts[i]; body = parts[i + 1].split("Manual Harness Summary:")[0]
        res[full.split("::")[-1]] = _parse_block(full, body)
    return res


def run_harnesses(names, cfg=None, use_cache=True, playback=False, timeout=3000, jobs=8, keep=False, _retry=True):
    """run the named harnesses (one scratch copy, one cargo kani invocation); per-harness result cache.
    returns dict(status, harnesses={name: result}, messages, wall_s, cmd, injection)"""
    cfg = cfg or load_config()
    os.makedirs(CACHE, exist_ok=True)
    out = {"harnesses": {}, "status": None, "messages": [], "wall_s": 0, "cmd": "", "injection": None}
    todo = []
    for h in names:
        fp = harness_fingerprint(h, cfg)
        cpath = os.path.join(CACHE, hashlib.sha256((fp + "|" + h + "|pb=%s" % playback).encode()).hexdigest() + ".json")
        if use_cache and os.path.exists(cpath):
            r = json.load(open(cpath)); r["cached"] = True
            out["harnesses"][h] = r
        else:
            todo.append((h, cpath))
    t0 = time.time()
    if todo:
        # inject only the modules that define the requested harnesses (+ the shared spec module): a harness module
        # that no longer compiles against a changed /repo then cannot take unrelated harnesses down with it
        need = {"verif_kani_spec"}
        for m in cfg["modules"]:
            txt = open(os.path.join(KANI_DIR, m["source"])).read()
            if any(re.search(r"\bfn\s+%s\s*\(" % re.escape(h), txt) for h, _ in todo):
                need.add(m["name"])
        cfg = dict(cfg, modules=[m for m in cfg["modules"] if m["name"] in need])
        parents = set(m["parent"] for m in cfg["modules"])
        cfg["contracts"] = [c for c in cfg.get("contracts", []) if c["file"] in parents]
        d, report = make_scratch(cfg)
        out["injection"] = report
        try:
            if report["errors"]:
                out["status"] = "inject-error"; out["messages"] += report["errors"]
                return out
            cmd = ["cargo", "kani", "-Z", "function-contracts", "-Z", "stubbing"]
            if playback:
                cmd += ["-Z", "concrete-playback", "--concrete-playback=print"]
            for h, _ in todo:
                cmd += ["--harness", h]
            if len(todo) > 1 and not playback:
                cmd += ["-j", str(min(jobs, len(todo))), "--output-format", "terse"]
            hto = max(cfg["harnesses"].get(h, {}).get("timeout", 600) for h, _ in todo)
            cmd += ["-Z", "unstable-options", "--harness-timeout", "%ds" % hto]
            out["cmd"] = "(cd <scratch copy of /repo + injected harness modules>; CARGO_NET_OFFLINE=true " + " ".join(cmd) + ")"
            env = dict(os.environ, CARGO_NET_OFFLINE="true")
            env.pop("RUSTUP_TOOLCHAIN", None)
            log = os.path.join(d, "kani.log")
            rc = 0
            with open(log, "w") as lf:
                try:
                    rc = subprocess.run(cmd, cwd=d, stdout=lf, stderr=subprocess.STDOUT, env=env, timeout=timeout).returncode
                except subprocess.TimeoutExpired:
                    rc = -9
                    out["messages"].append("cargo kani timeout after %ds" % timeout)
            text = open(log, errors="replace").read()
            parsed = parse_log(text, [h for h, _ in todo])
            for h, cpath in todo:
                r = parsed.get(h)
                if r is None:
                    continue
                if playback:
                    r["playback_log"] = text[-30000:]
                out["harnesses"][h] = r
                if r["status"] in ("success", "failed"):
                    json.dump(r, open(cpath, "w"))
            missing = [h for h, _ in todo if h not in parsed]
            if missing:
                errs = re.findall(r"^error(?:\[E\d+\])?: .*$", text, flags=re.M)[:10]
                out["messages"].append("harnesses without result: %s" % missing)
                out["messages"] += errs
                out["log_tail"] = text[-4000:]
                out["status"] = "timeout" if rc == -9 else "tool-error"
            if keep:
                out["scratch"] = d
        finally:
            if not keep:
                shutil.rmtree(d, ignore_errors=True)
    # a harness of a parallel batch that left no result (killed under memory pressure, interleaved terse output): run it once more alone
    if _retry and not playback and not keep and out.get("status") in ("tool-error",) and len(names) > 1:
        missing = [h for h in names if h not in out["harnesses"]]
        if missing and len(missing) <= 4:
            for h in missing:
                r1 = run_harnesses([h], None, use_cache=use_cache, timeout=timeout, jobs=1, _retry=False)
                if h in r1["harnesses"]:
                    out["harnesses"][h] = r1["harnesses"][h]
                    out["messages"].append("harness %s re-run alone after the batch left no result: %s" % (h, r1["harnesses"][h]["status"]))
            if all(h in out["harnesses"] for h in names):
                out["status"] = None
    if out["status"] is None:
        st = [r["status"] for r in out["harnesses"].values()]
        if any(x == "failed" for x in st):
            out["status"] = "failed"
        elif all(x == "success" for x in st):
            out["status"] = "success"
        else:
            out["status"] = "tool-error"
    out["wall_s"] = round(time.time() - t0, 1)
    return out


def native_replay(h, cfg=None, timeout=2400):
    """Kani's counterexample replayed against the REAL code: the harness is verified with --concrete-playback=inplace
    (Kani writes a #[test] holding the concrete input values next to the harness), then `cargo kani playback` runs that
    test natively. Returns dict(generated=bool, native_failed=bool|None, test=<source of the generated test>, output=tail)."""
    cfg = cfg or load_config()
    need = {"verif_kani_spec"}
    for m in cfg["modules"]:
        if re.search(r"\bfn\s+%s\s*\(" % re.escape(h), open(os.path.join(KANI_DIR, m["source"])).read()):
            need.add(m["name"])
    sub = dict(cfg, modules=[m for m in cfg["modules"] if m["name"] in need])
    parents = set(m["parent"] for m in sub["modules"])
    sub["contracts"] = [c for c in cfg.get("contracts", []) if c["file"] in parents]
    d, report = make_scratch(sub)
    out = {"generated": False, "native_failed": None, "test": None, "output": ""}
    try:
        env = dict(os.environ, CARGO_NET_OFFLINE="true")
        env.pop("RUSTUP_TOOLCHAIN", None)
        base = ["cargo", "kani", "-Z", "function-contracts", "-Z", "stubbing", "-Z", "concrete-playback"]
        p = subprocess.run(base + ["--concrete-playback=inplace", "--harness", h, "-Z", "unstable-options", "--harness-timeout", "%ds" % (timeout // 2)],
                           cwd=d, capture_output=True, text=True, env=env, timeout=timeout)
        tests = []
        for m in sub["modules"]:
            f = os.path.join(d, _mod_file(m["parent"], m["name"]))
            if os.path.exists(f):
                tests += re.findall(r"(#\[test\]\s*\nfn (kani_concrete_playback_%s\w*)\(\)[\s\S]*?\n\})" % re.escape(h), open(f).read())
        if not tests:
            out["output"] = (p.stdout + p.stderr)[-1500:]
            return out
        out["generated"] = True
        # Kani also writes playback tests for satisfied kani::cover! statements: run ALL tests generated for this harness,
        # the counterexample is the one that fails natively
        q = subprocess.run(["cargo", "kani", "playback", "-Z", "concrete-playback", "-Z", "function-contracts", "-Z", "stubbing", "--", "kani_concrete_playback_%s" % h],
                           cwd=d, capture_output=True, text=True, env=env, timeout=timeout)
        txt = q.stdout + q.stderr
        out["output"] = txt[-2500:]
        failed_names = set(re.findall(r"test (?:\S+::)?(kani_concrete_playback_\w+) \.\.\. FAILED", txt))
        pick = [t for t in tests if t[1] in failed_names] or tests
        out["test"] = pick[0][0]
        out["tests_generated"] = len(tests)
        out["tests_failed_natively"] = sorted(failed_names)
        ms = re.findall(r"test result: (\w+)\. (\d+) passed; (\d+) failed", txt)
        ran = sum(int(a) + int(b) for _, a, b in ms)
        if ran > 0:
            out["native_failed"] = any(int(b) > 0 for _, a, b in ms)
        elif "panicked at" in txt:
            out["native_failed"] = True
    except subprocess.TimeoutExpired:
        out["output"] = "timeout"
    finally:
        shutil.rmtree(d, ignore_errors=True)
    return out


if __name__ == "__main__":
    import argparse
    ap = argparse.ArgumentParser()
    ap.add_argument("harness", nargs="+")
    ap.add_argument("--no-cache", action="store_true")
    ap.add_argument("--playback", action="store_true")
    ap.add_argument("--keep", action="store_true")
    ap.add_argument("--native-replay", action="store_true")
    a = ap.parse_args()
    if a.native_replay:
        print(json.dumps(native_replay(a.harness[0]), indent=1))
        sys.exit(0)
    cfg = load_config()
    names = []
    for h in a.harness:
        if h.startswith("prop:"):
            names += [n for n, i in cfg["harnesses"].items() if h[5:] in i.get("props", [])]
        elif h.startswith("group:"):
            names += [n for n, i in cfg["harnesses"].items() if i.get("group") == h[6:]]
        else:
            names.append(h)
    r = run_harnesses(names, cfg, use_cache=not a.no_cache, playback=a.playback, keep=a.keep)
    for h, x in r["harnesses"].items():
        x.pop("playback_log", None)
    print(json.dumps(r, indent=1)[:15000])
