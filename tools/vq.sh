#!/bin/bash
# dev helper: generate + verify one unit, print rendered diagnostics
u=$1; shift
W=${VERIF_WORK:-/verif/.work}
cd /verif && mkdir -p $W && python3 tools/extract.py verus/units/$u.vu -o $W/$u.rs --prelude verus/prelude.rs --prelude verus/shims.rs || exit 2
cd $W && verus $u.rs --output-json --time --error-format=json "$@" > $u.out.json 2> $u.err.txt
echo exit=$?
python3 - $u <<'PY'
import json,sys
u=sys.argv[1]
for l in open(u+'.err.txt'):
    try: d=json.loads(l)
    except Exception: print(l[:300]); continue
    if d.get('level')=='warning': continue
    print('\n'.join(d['rendered'].split('\n')[:14]))
try:
    d=json.load(open(u+'.out.json')); print(d['verification-results'], d['times-ms']['total'])
except Exception as e: print('no json', e)
PY
