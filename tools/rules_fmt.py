"""Plugin rule module: `write!` with a format string  ->  the calls `format_args!` / `fmt::write` perform (rule R110).

Loaded by tools/extract.py (`_load_rule_plugins`).  Purely syntactic; anything the rule does not understand is left
unrewritten (Verus then rejects the `write!` macro and the unit is *undecided*, never wrongly proved).

How the `Display` impls themselves get under contract needs NO rewrite: a unit declares its own shim trait
`pub trait Display { fn fmt(&self, f: &mut Formatter<'_>) -> (r: std::fmt::Result); }` in raw text (`Formatter` is the real
`std::fmt::Formatter`, its sink contents an uninterpreted ghost view), so `impl<'a> Display for X<'a> { fn fmt(..) }` is copied
verbatim, each impl adds its own `ensures`, and leaf printers (i32, str, Cow<str>, ..) are trusted `external_body` impls of the
same shim trait.  See unit disp.
"""
import re


def _split_format(lit):
    """lit: source text of a plain (non-raw) string literal including the quotes.
    returns list of ('lit', source_text_without_quotes) / ('arg', name_or_None), or None when the literal uses
    anything but `{}` / `{ident}` / `{{` / `}}` (format specs, positions, raw strings, line continuations)."""
    if not (lit.startswith('"') and lit.endswith('"')) or "\n" in lit:
        return None
    s = lit[1:-1]
    ops, cur, i = [], "", 0
    while i < len(s):
        c = s[i]
        if c == "\\":
            if s.startswith("\\u{", i):
                j = s.find("}", i)
                if j < 0:
                    return None
                cur += s[i:j + 1]; i = j + 1
            else:
                cur += s[i:i + 2]; i += 2
        elif c == "{":
            if s.startswith("{{", i):
                cur += "{"; i += 2; continue
            j = s.find("}", i)
            if j < 0:
                return None
            inner = s[i + 1:j]
            kind = "arg"
            if inner.endswith(":?") and (inner == ":?" or re.match(r"^[A-Za-z_][A-Za-z0-9_]*$", inner[:-2])):
                kind, inner = "dbg", inner[:-2]      # `{:?}` / `{name:?}`: Debug::fmt instead of Display::fmt
            elif inner != "" and not re.match(r"^[A-Za-z_][A-Za-z0-9_]*$", inner):
                return None          # `{:04}`, `{:#?}`, `{0}`, `{x:>5}` ...: not handled
            if cur:
                ops.append(("lit", cur)); cur = ""
            ops.append((kind, inner or None)); i = j + 1
        elif c == "}":
            if s.startswith("}}", i):
                cur += "}"; i += 2; continue
            return None
        else:
            cur += c; i += 1
    if cur:
        ops.append(("lit", cur))
    return ops


# place expressions, optionally followed by argument-less method calls (`name.as_ref()`): evaluated once, in argument order
_PLACE = re.compile(r"^[&*\s]*[A-Za-z_][A-Za-z0-9_]*(\s*\.\s*[A-Za-z0-9_]+(\s*\(\s*\))?)*$")


def make_rule(ex):
    lex, match_close, _replace_spans = ex.lex, ex.match_close, ex._replace_spans

    def rule_R110(src, stats):
        """`write!(F, "p0{a}p1{}p2", x)` (F an identifier; format string a plain literal whose placeholders are only `{}` / `{ident}`;
        `{{` `}}` are the literal braces; positional arguments are side-effect-free place expressions `x`, `*x`, `self.a`) ->
        the calls that `F.write_fmt(format_args!(..))` = `core::fmt::write` performs, in order: for every non-empty literal piece
        `F.write_str("piece")`, for every placeholder `ARG.fmt(F)` (std: `Display::fmt(&ARG, F)`; method-call syntax auto-(de)references
        to the impl that std's forwarding impls for `&T` / `Box<T>` reach; the unit's shim trait `Display` is the only `fmt` in scope),
        stopping at the first `Err` which becomes the value.  Two output shapes:
          statement `write!(..)?`  ->  `OP1?; OP2?; ..; OPn?`   (each `?` returns the first error unchanged: `From<fmt::Error> for fmt::Error`)
          any other position       ->  `(match OP1 { Err(vx_e) => Err(vx_e), Ok(_) => { (match OP2 { .. Ok(_) => { OPn } }) } })`, one op: `OPn`,
                                        no op: `Ok::<(), std::fmt::Error>(())`
        A `{:?}` / `{name:?}` placeholder becomes `ARG.vx_debug_fmt(F)` (std: `Debug::fmt(&ARG, F)`; the unit's shim trait `Debug` gives the
        trusted leaf contracts, e.g. an uninterpreted `debug_text` for str); positional arguments may end in argument-less method calls.
        Rejected, i.e. left unrewritten (the unit becomes undecided): other format specs / positions (`{:04}`, `{:#?}`, `{0}`), named arguments
        `n = e`, raw strings, literals with a line break, other argument expressions, argument count mismatch.
        Assumption shared with the trusted leaf printers: F carries default formatting options, as every Formatter made by `write_fmt` does."""
        while True:
            code = lex(src)
            hit = False
            for i in range(len(code) - 3):
                t = code[i]
                if not (t.kind == "ident" and t.text == "write" and code[i + 1].text == "!" and code[i + 2].text == "("):
                    continue
                if i > 0 and code[i - 1].text in (".", ":"):
                    continue
                e = match_close(code, i + 2)
                # split arguments at top-level commas
                args, d, start = [], 0, i + 3
                for k in range(i + 3, e):
                    tk = code[k]
                    if tk.kind == "punct" and tk.text in "([{":
                        d += 1
                    elif tk.kind == "punct" and tk.text in ")]}":
                        d -= 1
                    elif d == 0 and tk.text == ",":
                        args.append((start, k)); start = k + 1
                if start < e:
                    args.append((start, e))
                if len(args) < 2 or args[0][1] - args[0][0] != 1 or code[args[0][0]].kind != "ident":
                    continue
                F = code[args[0][0]].text
                if args[1][1] - args[1][0] != 1 or code[args[1][0]].kind != "str":
                    continue
                ops = _split_format(code[args[1][0]].text)
                if ops is None:
                    continue
                pos = [src[code[a].start:code[b - 1].end] for a, b in args[2:]]
                if any(not _PLACE.match(p) for p in pos):
                    continue
                if sum(1 for o in ops if o[0] in ("arg", "dbg") and o[1] is None) != len(pos):
                    continue
                calls, pi = [], 0
                for kind, v in ops:
                    if kind == "lit":
                        calls.append('%s.write_str("%s")' % (F, v))
                    else:
                        a = v
                        if a is None:
                            a = pos[pi]; pi += 1
                        m = "fmt" if kind == "arg" else "vx_debug_fmt"
                        calls.append(("%s." + m + "(%s)" if re.match(r"^[A-Za-z_]\w*$", a) else "(%s)." + m + "(%s)") % (a, F))
                end = code[e].end
                if code[e + 1].text == "?" and code[e + 2].text == ";" and calls and \
                        (i == 0 or code[i - 1].text in ("{", "}", ";")):
                    out = "?; ".join(calls) + "?"
                    end = code[e + 1].end
                elif not calls:
                    out = "Ok::<(), std::fmt::Error>(())"
                elif len(calls) == 1:
                    out = calls[0]
                else:
                    out = calls[-1]
                    for c in reversed(calls[:-1]):
                        out = "(match %s { Err(vx_e) => Err(vx_e), Ok(_) => { %s } })" % (c, out)
                src = _replace_spans(src, [(t.start, end, out)])
                stats["R110"] = stats.get("R110", 0) + 1
                hit = True
                break
            if not hit:
                return src
    return rule_R110


def register(RULES, RULE_DOC, extract_module):
    r = make_rule(extract_module)
    RULES["R110"] = r
    RULE_DOC["R110"] = r.__doc__.strip()
