// Injected as `#[cfg(kani)] mod verif_kani_misc;` (child of crate::functions).
// Bounded twins (level "bounded"): C03 text rendering (to_string / to_pretty_string) against a small executable
// RFC 8259 escaper and the documented pretty layout; C14 comparable keys against `compare`.  Documents are built by the
// README layout spec (crate::verif_kani_spec) from concrete-shape constructors and contain NO numbers (number rendering
// and float images are covered elsewhere and are slow in CBMC).
// NOT HERE (measured infeasible): C02 totality of `parse_value` -- CBMC times out (> 10 min) even for inputs of one
// byte, and also on the non-recursive scanners (string / number / literals) called directly on <= 5 bytes.
#![allow(unused_imports, dead_code)]
use super::*;
use crate::verif_kani_spec::*;

/// binary documents must never reach the JSON text branch
pub(crate) fn no_text(_buf: &[u8]) -> Result<Value<'_>, Error> {
    panic!("text branch reached with a JSONB argument")
}

// ------------------------------------------------------------------ expected text
// PERFORMANCE NOTE: the renderer slices the document with bounds that depend on the (symbolic) string bytes, so CBMC
// unwinds the UTF-8 chunk loops of String::from_utf8_lossy up to the harness bound for every call.  The text twins
// therefore run with `unwind(6)`, and every harness-side loop is written as nested loops of at most 4-5 iterations.
const TMAX: usize = 80;

struct Txt {
    b: [u8; TMAX],
    n: usize,
}

fn hex(n: u8) -> u8 {
    if n < 10 { b'0' + n } else { b'a' + (n - 10) }
}

impl Txt {
    fn new() -> Txt {
        Txt { b: [0u8; TMAX], n: 0 }
    }
    fn ch(&mut self, c: u8) {
        assert!(self.n < TMAX);
        self.b[self.n] = c;
        self.n += 1;
    }
    /// a literal of at most 16 bytes
    fn lit(&mut self, s: &[u8]) {
        assert!(s.len() <= 16);
        let mut c = 0;
        while c < 4 {
            let mut j = 0;
            while j < 4 {
                let i = c * 4 + j;
                if i < s.len() {
                    self.ch(s[i]);
                }
                j += 1;
            }
            c += 1;
        }
    }
    /// RFC 8259 section 7: quotation mark, reverse solidus and the control characters U+0000..U+001F must be escaped;
    /// two-character escapes for \" \\ \b \f \n \r \t, \u00xx (lowercase hex) for the other control characters;
    /// strings of at most 4 bytes
    fn string(&mut self, s: &[u8]) {
        assert!(s.len() <= 4);
        self.ch(b'"');
        let mut i = 0;
        while i < s.len() {
            let c = s[i];
            match c {
                b'"' => self.lit(b"\\\""),
                b'\\' => self.lit(b"\\\\"),
                0x08 => self.lit(b"\\b"),
                0x0C => self.lit(b"\\f"),
                b'\n' => self.lit(b"\\n"),
                b'\r' => self.lit(b"\\r"),
                b'\t' => self.lit(b"\\t"),
                _ => {
                    if c < 0x20 {
                        self.lit(b"\\u00");
                        self.ch(hex(c >> 4));
                        self.ch(hex(c & 15));
                    } else {
                        self.ch(c);
                    }
                }
            }
            i += 1;
        }
        self.ch(b'"');
    }
    /// a scalar element without numbers
    fn scalar(&mut self, it: &It) {
        match it.ty() {
            T_NULL => self.lit(b"null"),
            T_TRUE => self.lit(b"true"),
            T_FALSE => self.lit(b"false"),
            T_STRING => self.string(it.payload()),
            _ => assert!(false),
        }
    }
    fn same(&self, s: &str) -> bool {
        let g = s.as_bytes();
        if g.len() != self.n {
            return false;
        }
        let mut ok = true;
        let mut a = 0;
        while a < 5 {
            let mut c = 0;
            while c < 4 {
                let mut j = 0;
                while j < 4 {
                    let i = a * 16 + c * 4 + j;
                    if i < self.n && g[i] != self.b[i] {
                        ok = false;
                    }
                    j += 1;
                }
                c += 1;
            }
            a += 1;
        }
        ok
    }
}

// README layout with short loops (the same byte layout as verif_kani_spec::layout_*; see km_lay_agrees)
fn put(b: &mut Buf, s: &[u8]) {
    assert!(s.len() <= 16);
    let mut c = 0;
    while c < 4 {
        let mut j = 0;
        while j < 4 {
            let i = c * 4 + j;
            if i < s.len() {
                b.push(s[i]);
            }
            j += 1;
        }
        c += 1;
    }
}

fn lay_array(items: &[It]) -> Buf {
    assert!(items.len() <= 4);
    let mut b = Buf::new();
    b.push_u32(ARRAY | items.len() as u32);
    let mut i = 0;
    while i < items.len() {
        b.push_u32(items[i].word);
        i += 1;
    }
    i = 0;
    while i < items.len() {
        put(&mut b, items[i].payload());
        i += 1;
    }
    b
}

fn lay_object(keys: &[It], vals: &[It]) -> Buf {
    assert!(keys.len() <= 2 && vals.len() == keys.len());
    let mut b = Buf::new();
    b.push_u32(OBJECT | keys.len() as u32);
    let mut i = 0;
    while i < keys.len() {
        b.push_u32(keys[i].word);
        i += 1;
    }
    i = 0;
    while i < vals.len() {
        b.push_u32(vals[i].word);
        i += 1;
    }
    i = 0;
    while i < keys.len() {
        put(&mut b, keys[i].payload());
        i += 1;
    }
    i = 0;
    while i < vals.len() {
        put(&mut b, vals[i].payload());
        i += 1;
    }
    b
}

/// a document of at most 16 bytes as a CONTAINER element
fn cont(d: &Buf) -> It {
    assert!(d.n <= 16);
    let mut pay = [0u8; PAYMAX];
    let mut c = 0;
    while c < 4 {
        let mut j = 0;
        while j < 4 {
            let i = c * 4 + j;
            if i < d.n {
                pay[i] = d.b[i];
            }
            j += 1;
        }
        c += 1;
    }
    It { word: T_CONTAINER | d.n as u32, pay, plen: d.n }
}

/// the short-loop layout functions produce the same bytes as the shared README layout spec
#[kani::proof]
#[kani::unwind(50)]
fn km_lay_agrees() {
    let k = [key1(), key2()];
    let v = [sc_str1().it, sc_w0().it];
    assert!(lay_object(&k, &v).eq_slice(layout_object(&k, &v).as_slice()));
    let inner = lay_object(&[k[0]], &[v[1]]);
    let a = [sc_str2().it, cont(&inner), sc_w0().it, cont(&lay_array(&[]))];
    assert!(cont(&inner).same(&it_object(&[k[0]], &[v[1]])));
    assert!(lay_array(&a).eq_slice(layout_array(&a).as_slice()));
}

// ------------------------------------------------------------------ C03 text
/// Model of String::from_utf8_lossy for ASCII input (the precondition is CHECKED): the input itself, borrowed.
/// The real function walks a UTF-8 chunk automaton whose symbolic execution costs minutes per call; all strings of
/// these twins are ASCII by construction (ill-formed UTF-8 in documents is the subject of C10, not of C03).
fn lossy_ascii(v: &[u8]) -> Cow<'_, str> {
    let mut i = 0;
    while i < v.len() {
        assert!(v[i] < 0x80);
        i += 1;
    }
    Cow::Borrowed(unsafe { std::str::from_utf8_unchecked(v) })
}

fn cstr(p: &[u8]) -> It {
    It::from_parts(T_STRING, p)
}

/// concrete payload-less items.  (A SYMBOLIC entry type makes CBMC explore every branch of the renderer for that item,
/// number formatting and nested containers included: minutes per item.  The text twins keep all entry words concrete;
/// only string BYTES are symbolic.)
fn c_null() -> It {
    It { word: T_NULL, pay: [0u8; PAYMAX], plen: 0 }
}
fn c_true() -> It {
    It { word: T_TRUE, pay: [0u8; PAYMAX], plen: 0 }
}
fn c_false() -> It {
    It { word: T_FALSE, pay: [0u8; PAYMAX], plen: 0 }
}

/// ESCAPING, scalar documents: a 1-byte string with an arbitrary ASCII byte (controls, quote, backslash included)
#[kani::proof]
#[kani::unwind(6)]
#[kani::stub(crate::parser::parse_value, no_text)]
#[kani::stub(std::string::String::from_utf8_lossy, lossy_ascii)]
fn km_text_scalar_str1() {
    let s = sc_str1().it;
    let doc = layout_scalar(&s);
    let mut t = Txt::new();
    t.string(s.payload());
    assert!(t.same(&to_string(doc.as_slice())));
}

/// the same through to_pretty_string
#[kani::proof]
#[kani::unwind(6)]
#[kani::stub(crate::parser::parse_value, no_text)]
#[kani::stub(std::string::String::from_utf8_lossy, lossy_ascii)]
fn km_pretty_scalar_str1() {
    let s = sc_str1().it;
    let doc = layout_scalar(&s);
    let mut t = Txt::new();
    t.string(s.payload());
    assert!(t.same(&to_pretty_string(doc.as_slice())));
}

/// ESCAPING inside an array, with an element after the string: [str1, true]
#[kani::proof]
#[kani::unwind(6)]
#[kani::stub(crate::parser::parse_value, no_text)]
#[kani::stub(std::string::String::from_utf8_lossy, lossy_ascii)]
fn km_text_array_str1() {
    let a = [sc_str1().it, c_true()];
    let doc = lay_array(&a);
    let mut t = Txt::new();
    t.ch(b'[');
    t.scalar(&a[0]);
    t.ch(b',');
    t.scalar(&a[1]);
    t.ch(b']');
    assert!(t.same(&to_string(doc.as_slice())));
}

/// ESCAPING of object keys: {k: null} with an arbitrary 1-byte ASCII key
#[kani::proof]
#[kani::unwind(6)]
#[kani::stub(crate::parser::parse_value, no_text)]
#[kani::stub(std::string::String::from_utf8_lossy, lossy_ascii)]
fn km_text_object_key1() {
    let k = [key1()];
    let v = [c_null()];
    let doc = lay_object(&k, &v);
    let mut t = Txt::new();
    t.ch(b'{');
    t.string(k[0].payload());
    t.ch(b':');
    t.scalar(&v[0]);
    t.ch(b'}');
    assert!(t.same(&to_string(doc.as_slice())));
}

/// STRUCTURE, compact: [[], {}, ["x"]] -- nested empty containers followed by a further element; concrete strings
#[kani::proof]
#[kani::unwind(6)]
#[kani::stub(crate::parser::parse_value, no_text)]
#[kani::stub(std::string::String::from_utf8_lossy, lossy_ascii)]
fn km_text_structure1() {
    let d1 = lay_array(&[cont(&lay_array(&[])), cont(&lay_object(&[], &[])), cont(&lay_array(&[cstr(b"x")]))]);
    let mut t = Txt::new();
    t.lit(b"[[],{},[\"x\"]]");
    assert!(t.same(&to_string(d1.as_slice())));
}

/// STRUCTURE, compact: [{"k": false}, "q\"\n\u{1}"] -- an element after a nested object; a concrete string with the
/// three escape classes
#[kani::proof]
#[kani::unwind(6)]
#[kani::stub(crate::parser::parse_value, no_text)]
#[kani::stub(std::string::String::from_utf8_lossy, lossy_ascii)]
fn km_text_structure2() {
    let v = c_false();
    let d2 = lay_array(&[cont(&lay_object(&[cstr(b"k")], &[v])), cstr(b"q\"\n\x01")]);
    let mut u = Txt::new();
    u.lit(b"[{\"k\":");
    u.scalar(&v);
    u.lit(b"},\"q\\\"\\n\\u0001\"]");
    assert!(u.same(&to_string(d2.as_slice())));
}

/// ESCAPING, 2-byte strings with ONE symbolic byte: a literal before a possibly escaped byte (the pending literal must
/// be flushed first) and a literal after a possibly escaped byte
#[kani::proof]
#[kani::unwind(6)]
#[kani::stub(crate::parser::parse_value, no_text)]
#[kani::stub(std::string::String::from_utf8_lossy, lossy_ascii)]
fn km_text_scalar_lit_sym() {
    let c: u8 = kani::any();
    kani::assume(c < 0x80);
    let s = cstr(&[b'a', c]);
    let doc = layout_scalar(&s);
    let mut t = Txt::new();
    t.string(s.payload());
    assert!(t.same(&to_string(doc.as_slice())));
}

#[kani::proof]
#[kani::unwind(6)]
#[kani::stub(crate::parser::parse_value, no_text)]
#[kani::stub(std::string::String::from_utf8_lossy, lossy_ascii)]
fn km_text_scalar_sym_lit() {
    let c: u8 = kani::any();
    kani::assume(c < 0x80);
    let s = cstr(&[c, b'a']);
    let doc = layout_scalar(&s);
    let mut t = Txt::new();
    t.string(s.payload());
    assert!(t.same(&to_string(doc.as_slice())));
}

/// STRUCTURE, pretty ["a", []]: separator `,\n`, two-space indentation, and the EMPTY nested container as the current code
/// prints it (opening bracket, an empty line, the parent's indentation, closing bracket)
#[kani::proof]
#[kani::unwind(6)]
#[kani::stub(crate::parser::parse_value, no_text)]
#[kani::stub(std::string::String::from_utf8_lossy, lossy_ascii)]
fn km_pretty_array2() {
    let d = lay_array(&[cstr(b"a"), cont(&lay_array(&[]))]);
    let mut t = Txt::new();
    t.lit(b"[\n  \"a\",\n  [\n\n");
    t.lit(b"  ]\n]");
    assert!(t.same(&to_pretty_string(d.as_slice())));
}

/// STRUCTURE, smallest pretty shapes: [null] and {"a": true}
#[kani::proof]
#[kani::unwind(6)]
#[kani::stub(crate::parser::parse_value, no_text)]
#[kani::stub(std::string::String::from_utf8_lossy, lossy_ascii)]
fn km_pretty_tiny_array() {
    let d = lay_array(&[c_null()]);
    let mut t = Txt::new();
    t.lit(b"[\n  null\n]");
    assert!(t.same(&to_pretty_string(d.as_slice())));
}

#[kani::proof]
#[kani::unwind(6)]
#[kani::stub(crate::parser::parse_value, no_text)]
#[kani::stub(std::string::String::from_utf8_lossy, lossy_ascii)]
fn km_pretty_tiny_object() {
    let d = lay_object(&[cstr(b"a")], &[c_true()]);
    let mut t = Txt::new();
    t.lit(b"{\n  \"a\": true\n}");
    assert!(t.same(&to_pretty_string(d.as_slice())));
}

/// empty top-level containers, compact and pretty
#[kani::proof]
#[kani::unwind(6)]
#[kani::stub(crate::parser::parse_value, no_text)]
fn km_text_empty() {
    let ea = lay_array(&[]);
    let eo = lay_object(&[], &[]);
    assert!(to_string(ea.as_slice()).as_bytes() == b"[]");
    assert!(to_string(eo.as_slice()).as_bytes() == b"{}");
    assert!(to_pretty_string(ea.as_slice()).as_bytes() == b"[\n\n]");
    assert!(to_pretty_string(eo.as_slice()).as_bytes() == b"{\n\n}");
}

// ------------------------------------------------------------------ C14 comparable keys
fn ord_i8(o: Ordering) -> i8 {
    match o {
        Ordering::Less => -1,
        Ordering::Equal => 0,
        Ordering::Greater => 1,
    }
}

/// bytewise (lexicographic, shorter prefix first) order of a[from..] and b[from..]
fn bytes_cmp(a: &[u8], b: &[u8], from: usize) -> i8 {
    let mut i = from;
    while i < a.len() && i < b.len() {
        if a[i] != b[i] {
            return if a[i] < b[i] { -1 } else { 1 };
        }
        i += 1;
    }
    if a.len() < b.len() { -1 } else if a.len() > b.len() { 1 } else { 0 }
}

/// key(a) <=> key(b) (bytewise) == compare(a, b); the key writer only appends to a non-empty buffer
fn check_keys(da: &Buf, db: &Buf) {
    let p: u8 = kani::any();
    let mut ka: Vec<u8> = vec![p];
    let mut kb: Vec<u8> = vec![p];
    convert_to_comparable(da.as_slice(), &mut ka);
    convert_to_comparable(db.as_slice(), &mut kb);
    assert!(ka.len() > 1 && kb.len() > 1 && ka[0] == p && kb[0] == p);
    let c = compare(da.as_slice(), db.as_slice());
    assert!(c.is_ok());
    assert!(bytes_cmp(&ka, &kb, 1) == ord_i8(c.unwrap()));
}

/// string bytes of the C14 twins: ASCII above the depth marker bytes (see km_cmpkey_prefix_lowbyte for the rest)
fn hi(it: &It) -> bool {
    let mut i = 0;
    let mut ok = true;
    while i < it.plen {
        ok &= it.pay[i] > 0x02;
        i += 1;
    }
    ok
}

/// scalar documents, every pair of the concrete shapes null|bool, "", 1-byte string, 2-byte string (prefix strings included)
#[kani::proof]
#[kani::unwind(20)]
#[kani::stub(crate::parser::parse_value, no_text)]
fn km_cmpkey_scalars() {
    let w0 = layout_scalar(&sc_w0().it);
    let w0b = layout_scalar(&sc_w0().it);
    let s0 = layout_scalar(&sc_str0().it);
    let s1 = layout_scalar(&sc_str1().it);
    let s1b = layout_scalar(&sc_str1().it);
    let s2 = layout_scalar(&sc_str2().it);
    check_keys(&w0, &w0b);
    check_keys(&w0, &s1);
    check_keys(&s0, &s1);
    check_keys(&s1, &s1b);
    check_keys(&s1, &s2);
    check_keys(&s2, &s1);
    check_keys(&s2, &w0);
}

/// arrays [s, x] against [s', y]: s a 1-byte string, s' a 2-byte string (s may be a prefix of s'), x null|bool, y a 1-byte
/// string: the element after the shorter string meets the tail of the longer string in the key
#[kani::proof]
#[kani::unwind(30)]
#[kani::stub(crate::parser::parse_value, no_text)]
fn km_cmpkey_array_prefix() {
    let a = [sc_str1().it, sc_w0().it];
    let b = [sc_str2().it, sc_str1().it];
    kani::assume(hi(&a[0]) && hi(&b[0]) && hi(&b[1]));
    check_keys(&layout_array(&a), &layout_array(&b));
    check_keys(&layout_array(&b), &layout_array(&a));
}

/// equal-width first elements that may be EQUAL, so that the second elements decide: [s, t] against [s', t'] with 1-byte
/// strings (the second element's payload offset matters)
#[kani::proof]
#[kani::unwind(30)]
#[kani::stub(crate::parser::parse_value, no_text)]
fn km_cmpkey_array_second() {
    let a = [sc_str1().it, sc_str1().it];
    let b = [sc_str1().it, sc_str1().it];
    kani::assume(hi(&a[0]) && hi(&a[1]) && hi(&b[0]) && hi(&b[1]));
    check_keys(&layout_array(&a), &layout_array(&b));
}

/// a string after the shorter string: [s, t] against [s', x]
#[kani::proof]
#[kani::unwind(30)]
#[kani::stub(crate::parser::parse_value, no_text)]
fn km_cmpkey_array_prefix2() {
    let a = [sc_str1().it, sc_str1().it];
    let b = [sc_str2().it, sc_w0().it];
    kani::assume(hi(&a[0]) && hi(&a[1]) && hi(&b[0]));
    check_keys(&layout_array(&a), &layout_array(&b));
    check_keys(&layout_array(&b), &layout_array(&a));
}

/// arrays of different length: [x] against [x', y] (both directions)
#[kani::proof]
#[kani::unwind(30)]
#[kani::stub(crate::parser::parse_value, no_text)]
fn km_cmpkey_array_len() {
    let a = [sc_w0().it];
    let b = [sc_w0().it, sc_str1().it];
    kani::assume(hi(&b[1]));
    check_keys(&layout_array(&a), &layout_array(&b));
    check_keys(&layout_array(&b), &layout_array(&a));
}

/// [] against [x]
#[kani::proof]
#[kani::unwind(30)]
#[kani::stub(crate::parser::parse_value, no_text)]
fn km_cmpkey_array_empty() {
    let a = [sc_w0().it];
    check_keys(&layout_array(&[]), &layout_array(&a));
}

/// [s] against [s', y] with 1-byte strings s, s'
#[kani::proof]
#[kani::unwind(30)]
#[kani::stub(crate::parser::parse_value, no_text)]
fn km_cmpkey_array_len2() {
    let c = [sc_str1().it];
    let d = [sc_str1().it, sc_w0().it];
    kani::assume(hi(&c[0]) && hi(&d[0]));
    check_keys(&layout_array(&c), &layout_array(&d));
    check_keys(&layout_array(&d), &layout_array(&c));
}

/// one nesting level: [[s], x] against [[s', y]] and against [{k: s'}]; a null element against a nested container
#[kani::proof]
#[kani::unwind(40)]
#[kani::stub(crate::parser::parse_value, no_text)]
fn km_cmpkey_nested() {
    let s = sc_str1().it;
    let x = sc_w0().it;
    let s2 = sc_str1().it;
    let y = sc_w0().it;
    let k = key1();
    kani::assume(hi(&s) && hi(&s2) && hi(&k));
    let a = layout_array(&[it_array(&[s]), x]);
    let b = layout_array(&[it_array(&[s2, y])]);
    let c = layout_array(&[it_object(&[k], &[s2])]);
    check_keys(&a, &b);
    check_keys(&b, &a);
    check_keys(&a, &c);
    check_keys(&layout_array(&[x]), &b);
}

/// objects {k: v} against {k': v'} and against {k': v', k2: w}; object against array
#[kani::proof]
#[kani::unwind(40)]
#[kani::stub(crate::parser::parse_value, no_text)]
fn km_cmpkey_object() {
    let k = key1();
    let v = sc_str1().it;
    let k1 = key1();
    let v1 = sc_str1().it;
    let k2 = key2();
    let w = sc_w0().it;
    kani::assume(hi(&k) && hi(&v) && hi(&k1) && hi(&v1) && hi(&k2) && key_lt(&k1, &k2));
    let a = layout_object(&[k], &[v]);
    let b = layout_object(&[k1], &[v1]);
    let c = layout_object(&[k1, k2], &[v1, w]);
    check_keys(&a, &b);
    check_keys(&a, &c);
    check_keys(&c, &a);
    check_keys(&a, &layout_array(&[v]));
}

/// KNOWN FINDING F20 (registered with "expected": fails on the current tree): strings are written into the
/// key without terminator, so a string that is a proper prefix of its counterpart is followed by the next element's
/// depth byte (1 or 2); when the longer string continues with a byte <= that depth byte the key order disagrees with
/// `compare` (e.g. ["a", null] < ["a\u0000", null] for compare, but key("a"..) has 0x01 where the other has 0x00)
#[kani::proof]
#[kani::unwind(30)]
#[kani::stub(crate::parser::parse_value, no_text)]
fn km_cmpkey_prefix_lowbyte() {
    let a = [sc_str1().it, sc_w0().it];
    let b = [sc_str2().it, sc_w0().it];
    check_keys(&layout_array(&a), &layout_array(&b));
}
