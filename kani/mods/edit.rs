// Injected as `#[cfg(kani)] mod verif_kani_edit;` (child of crate::functions) into a scratch copy of /repo.
// Bounded twins (level "bounded") of the Verus units edit / sets / contains.  Only the JSON text parser is stubbed; the
// editing functions, the iterators and builder.rs run UNMODIFIED.  Documents are built by the README layout spec
// (crate::verif_kani_spec); the output is compared byte for byte with the layout of the expected element list.  Every
// buffer-writing call gets a NON-EMPTY output buffer: the prior bytes must stay untouched and the appended part must be
// exactly the expected document (C17).
//
// SIZE LIMIT (measured, see the report in harnesses.d/edit.json "bound"): builder.rs keeps `Entry` values (a recursive enum
// with drop glue) in a Vec / BTreeMap on the heap.  CBMC constant-propagates heap objects of <= 64 bytes only, i.e. a
// Vec<Entry> of capacity <= 2.  With a larger builder the entry tags are unknown to the symbolic execution, which then
// unfolds the nested-builder arms of write_entry and the drop glue of Entry recursively on garbage and does not finish.
// Hence: every ArrayBuilder here has capacity <= 2, the skeleton (types, widths, index / pos) is concrete and enumerated
// as separate paths, the payload bytes are symbolic.  contains uses no builder: number / string contents are symbolic there.
#![allow(unused_imports, dead_code)]
use super::*;
use crate::verif_kani_spec::*;

/// every harness stubs the JSON text parser: a binary document must never reach the text branch
pub(crate) fn no_text_e(_buf: &[u8]) -> Result<Value<'_>, Error> {
    panic!("text branch reached with a JSONB argument")
}

const PRE0: u8 = 0xAA;
const PRE1: u8 = 0xBB;
/// the non-empty output buffer handed to every buffer-writing function
fn out_buf() -> Vec<u8> { vec![PRE0, PRE1] }
/// buf == [PRE0, PRE1] ++ want
fn appended(buf: &Vec<u8>, want: &Buf) -> bool {
    buf.len() == 2 + want.n && buf[0] == PRE0 && buf[1] == PRE1 && want.eq_slice(&buf[2..])
}
/// buf == [PRE0, PRE1] (nothing appended)
fn untouched(buf: &Vec<u8>) -> bool { buf.len() == 2 && buf[0] == PRE0 && buf[1] == PRE1 }

// concrete-type elements (the entry word is a constant, payload bytes symbolic)
fn n2() -> It { sc_num2().it }
fn f9() -> It { sc_float9().it }
fn s1() -> It { sc_str1().it }
fn s2() -> It { sc_str2().it }
fn nul() -> It { sc_null().it }
fn cs(s: &[u8]) -> It { It::from_parts(T_STRING, s) }
fn elem_of(doc: &Buf) -> It { It::from_parts(T_CONTAINER, doc.as_slice()) }

// ------------------------------------------------------------------ C06/C17 delete_by_index (2-element arrays)
/// expected: a without element `eff` (a copy when out of range); a has 2 elements
fn case_delete_by_index2(a: &[It; 2], doc: &Buf, index: i32) {
    let mut buf = out_buf();
    assert!(delete_by_index(doc.as_slice(), index, &mut buf).is_ok());
    let eff = if index < 0 { 2 + index } else { index }; // negative counts from the end
    if eff == 0 { assert!(appended(&buf, &layout_array(&[a[1]]))); }
    else if eff == 1 { assert!(appended(&buf, &layout_array(&[a[0]]))); }
    else { assert!(appended(&buf, doc)); }
}

/// [num2, str1], index -3 (out of range), -2, -1
#[kani::proof]
#[kani::unwind(24)]
#[kani::stub(crate::parser::parse_value, no_text_e)]
fn kb_delete_by_index2_neg() {
    let a = [n2(), s1()];
    let doc = layout_array(&a);
    let index: i32 = kani::any();
    kani::assume(index >= -3 && index <= -1);
    if index == -3 { case_delete_by_index2(&a, &doc, -3); }
    else if index == -2 { case_delete_by_index2(&a, &doc, -2); }
    else { case_delete_by_index2(&a, &doc, -1); }
}

/// [float9, str2], index 0, 1, 2 (out of range)
#[kani::proof]
#[kani::unwind(30)]
#[kani::stub(crate::parser::parse_value, no_text_e)]
fn kb_delete_by_index2_pos() {
    let a = [f9(), s2()];
    let doc = layout_array(&a);
    let index: i32 = kani::any();
    kani::assume(index >= 0 && index <= 2);
    if index == 0 { case_delete_by_index2(&a, &doc, 0); }
    else if index == 1 { case_delete_by_index2(&a, &doc, 1); }
    else { case_delete_by_index2(&a, &doc, 2); }
}

/// wrong container kind: Err(InvalidJsonType) / Err(InvalidObject) and nothing appended (symbolic index / flag)
#[kani::proof]
#[kani::unwind(24)]
#[kani::stub(crate::parser::parse_value, no_text_e)]
fn kb_edit_wrong_kind() {
    let index: i32 = kani::any();
    kani::assume(index >= -6 && index <= 6);
    let dobj = layout_object(&[cs(b"b")], &[n2()]);
    let dsc = layout_scalar(&s2());
    let darr = layout_array(&[n2()]);
    let mut buf = out_buf();
    assert!(matches!(delete_by_index(dobj.as_slice(), index, &mut buf), Err(Error::InvalidJsonType)));
    assert!(matches!(delete_by_index(dsc.as_slice(), index, &mut buf), Err(Error::InvalidJsonType)));
    assert!(matches!(delete_by_name(dsc.as_slice(), "b", &mut buf), Err(Error::InvalidJsonType)));
    assert!(matches!(object_insert(darr.as_slice(), "b", dsc.as_slice(), kani::any(), &mut buf), Err(Error::InvalidObject)));
    let p = [KeyPath::Index(index)];
    assert!(matches!(delete_by_keypath(dsc.as_slice(), p.iter(), &mut buf), Err(Error::InvalidJsonType)));
    assert!(untouched(&buf));
    // strip_nulls of a scalar copies it
    assert!(strip_nulls(dsc.as_slice(), &mut buf).is_ok());
    assert!(appended(&buf, &dsc));
}

/// object_insert of an existing key without the update flag: Err(ObjectDuplicateKey), buffer unchanged
#[kani::proof]
#[kani::unwind(30)]
#[kani::stub(crate::parser::parse_value, no_text_e)]
fn kb_object_insert_duplicate_err() {
    let doc = layout_object(&[cs(b"b"), cs(b"cc")], &[n2(), s1()]);
    let nd = layout_scalar(&n2());
    let mut buf = out_buf();
    assert!(matches!(object_insert(doc.as_slice(), "b", nd.as_slice(), false, &mut buf), Err(Error::ObjectDuplicateKey)));
    assert!(matches!(object_insert(doc.as_slice(), "cc", nd.as_slice(), false, &mut buf), Err(Error::ObjectDuplicateKey)));
    assert!(untouched(&buf));
}

// ------------------------------------------------------------------ C06/C17 array_insert (result has 2 elements)
fn case_array_insert1(old: It, doc: &Buf, new_elem: It, new_doc: &Buf, pos: i32) {
    let mut buf = out_buf();
    assert!(array_insert(doc.as_slice(), pos, new_doc.as_slice(), &mut buf).is_ok());
    let p = if pos < 0 { 1 + pos } else { pos };
    let p = if p < 0 { 0 } else if p > 1 { 1 } else { p }; // clamping to 0..=len
    if p == 0 { assert!(appended(&buf, &layout_array(&[new_elem, old]))); }
    else { assert!(appended(&buf, &layout_array(&[old, new_elem]))); }
}

/// [num2] + a new str1 scalar, pos -2 (clamped), -1, 0
#[kani::proof]
#[kani::unwind(24)]
#[kani::stub(crate::parser::parse_value, no_text_e)]
fn kb_array_insert1_front() {
    let a = n2();
    let doc = layout_array(&[a]);
    let nv = s1();
    let nd = layout_scalar(&nv);
    let pos: i32 = kani::any();
    kani::assume(pos >= -2 && pos <= 0);
    if pos == -2 { case_array_insert1(a, &doc, nv, &nd, -2); }
    else if pos == -1 { case_array_insert1(a, &doc, nv, &nd, -1); }
    else { case_array_insert1(a, &doc, nv, &nd, 0); }
}

/// [str2] + a new nested container ([num2]) at pos 1 and 3 (clamped); + the object {b: null} at pos 0
#[kani::proof]
#[kani::unwind(34)]
#[kani::stub(crate::parser::parse_value, no_text_e)]
fn kb_array_insert1_container() {
    let a = s2();
    let doc = layout_array(&[a]);
    let sel: u8 = kani::any();
    if sel == 0 {
        let nd = layout_array(&[n2()]);
        case_array_insert1(a, &doc, elem_of(&nd), &nd, 1);
    } else if sel == 1 {
        let nd = layout_array(&[n2()]);
        case_array_insert1(a, &doc, elem_of(&nd), &nd, 3);
    } else {
        let nd = layout_object(&[cs(b"b")], &[nul()]);
        case_array_insert1(a, &doc, elem_of(&nd), &nd, 0);
    }
}

/// the value is a bare scalar (pos 0, 1) or an object {b: num2} (pos -1): it is treated as a one-element list
#[kani::proof]
#[kani::unwind(34)]
#[kani::stub(crate::parser::parse_value, no_text_e)]
fn kb_array_insert_into_nonarray() {
    let nv = s1();
    let nd = layout_scalar(&nv);
    let sel: u8 = kani::any();
    if sel == 0 {
        let s = n2();
        case_array_insert1(s, &layout_scalar(&s), nv, &nd, 0);
    } else if sel == 1 {
        let s = f9();
        case_array_insert1(s, &layout_scalar(&s), nv, &nd, 1);
    } else {
        let doc = layout_object(&[cs(b"b")], &[n2()]);
        case_array_insert1(elem_of(&doc), &doc, nv, &nd, -1);
    }
}

// ------------------------------------------------------------------ C06/C17 concat (result has 2 elements)
/// [num2] ++ [str1]; scalar ++ [x]; [x] ++ scalar
#[kani::proof]
#[kani::unwind(30)]
#[kani::stub(crate::parser::parse_value, no_text_e)]
fn kb_concat_arrays() {
    let (x, y) = (n2(), s1());
    let (dx, dy) = (layout_array(&[x]), layout_array(&[y]));
    let s = f9();
    let ds = layout_scalar(&s);
    let sel: u8 = kani::any();
    let mut buf = out_buf();
    if sel == 0 {
        assert!(concat(dx.as_slice(), dy.as_slice(), &mut buf).is_ok());
        assert!(appended(&buf, &layout_array(&[x, y])));
    } else if sel == 1 {
        assert!(concat(ds.as_slice(), dy.as_slice(), &mut buf).is_ok());
        assert!(appended(&buf, &layout_array(&[s, y])));
    } else {
        assert!(concat(dx.as_slice(), ds.as_slice(), &mut buf).is_ok());
        assert!(appended(&buf, &layout_array(&[x, s])));
    }
}

/// scalar ++ scalar; object ++ [x]; scalar ++ object: non-arrays are wrapped
#[kani::proof]
#[kani::unwind(40)]
#[kani::stub(crate::parser::parse_value, no_text_e)]
fn kb_concat_wrap() {
    let (s, t) = (s2(), n2());
    let (ds, dt) = (layout_scalar(&s), layout_scalar(&t));
    let dobj = layout_object(&[cs(b"b")], &[s1()]);
    let sel: u8 = kani::any();
    let mut buf = out_buf();
    if sel == 0 {
        assert!(concat(ds.as_slice(), dt.as_slice(), &mut buf).is_ok());
        assert!(appended(&buf, &layout_array(&[s, t])));
    } else if sel == 1 {
        let dy = layout_array(&[t]);
        assert!(concat(dobj.as_slice(), dy.as_slice(), &mut buf).is_ok());
        assert!(appended(&buf, &layout_array(&[elem_of(&dobj), t])));
    } else {
        assert!(concat(ds.as_slice(), dobj.as_slice(), &mut buf).is_ok());
        assert!(appended(&buf, &layout_array(&[s, elem_of(&dobj)])));
    }
}

// ------------------------------------------------------------------ C06/C17 delete_by_name / strip_nulls / keypath on 2-element arrays
/// ["@a", <Int64 97, payload bytes == "@a">]: "@a" removes the string only; ["@", "@"]: "@" removes both; no hit: a copy
#[kani::proof]
#[kani::unwind(24)]
#[kani::stub(crate::parser::parse_value, no_text_e)]
fn kb_delete_by_name_array2() {
    let num = It::from_parts(T_NUMBER, &[0x40, 0x61]);
    let sel: u8 = kani::any();
    let mut buf = out_buf();
    if sel == 0 {
        let doc = layout_array(&[cs(b"@a"), num]);
        assert!(delete_by_name(doc.as_slice(), "@a", &mut buf).is_ok());
        assert!(appended(&buf, &layout_array(&[num])));
    } else if sel == 1 {
        let doc = layout_array(&[cs(b"@"), cs(b"@")]);
        assert!(delete_by_name(doc.as_slice(), "@", &mut buf).is_ok());
        assert!(appended(&buf, &layout_array(&[])));
    } else {
        let doc = layout_array(&[num, cs(b"@a")]);
        assert!(delete_by_name(doc.as_slice(), "@", &mut buf).is_ok());
        assert!(appended(&buf, &doc));
    }
}

/// strip_nulls keeps array nulls: [null, num2] and [str1, null] unchanged
#[kani::proof]
#[kani::unwind(24)]
#[kani::stub(crate::parser::parse_value, no_text_e)]
fn kb_strip_nulls_array2() {
    let mut buf = out_buf();
    if kani::any() {
        let doc = layout_array(&[nul(), n2()]);
        assert!(strip_nulls(doc.as_slice(), &mut buf).is_ok());
        assert!(appended(&buf, &doc));
    } else {
        let doc = layout_array(&[s1(), nul()]);
        assert!(strip_nulls(doc.as_slice(), &mut buf).is_ok());
        assert!(appended(&buf, &doc));
    }
}

/// delete_by_keypath with a one-step index path on [num2, str2]: [0], [-1], [2] (out of range: unchanged)
#[kani::proof]
#[kani::unwind(24)]
#[kani::stub(crate::parser::parse_value, no_text_e)]
fn kb_delete_by_keypath_array2() {
    let a = [n2(), s2()];
    let doc = layout_array(&a);
    let sel: u8 = kani::any();
    let mut buf = out_buf();
    if sel == 0 {
        let p = [KeyPath::Index(0)];
        assert!(delete_by_keypath(doc.as_slice(), p.iter(), &mut buf).is_ok());
        assert!(appended(&buf, &layout_array(&[a[1]])));
    } else if sel == 1 {
        let p = [KeyPath::Index(-1)];
        assert!(delete_by_keypath(doc.as_slice(), p.iter(), &mut buf).is_ok());
        assert!(appended(&buf, &layout_array(&[a[0]])));
    } else {
        let p = [KeyPath::Index(2)];
        assert!(delete_by_keypath(doc.as_slice(), p.iter(), &mut buf).is_ok());
        assert!(appended(&buf, &doc));
    }
}

// ------------------------------------------------------------------ C12 contains (no builder involved)
/// [a, b] contains [c]  <=>  c == a or c == b BY VALUE across encodings: a is an Int64/UInt64 (2 bytes), b a Float64
/// 1.0..4.0 (9 bytes), c a small Int64/UInt64
#[kani::proof]
#[kani::unwind(30)]
#[kani::stub(crate::parser::parse_value, no_text_e)]
fn kb_contains_array_numbers() {
    let (a, b, c) = (sc_num2(), sc_float9(), sc_num2());
    let left = layout_array(&[a.it, b.it]);
    let want = a.num == c.num || b.num == c.num;
    assert!(contains(left.as_slice(), layout_array(&[c.it]).as_slice()) == want);
}

/// [a, b] contains the BARE scalar c (a Float64) with a a number and b a 2-byte string; a scalar never contains an array
#[kani::proof]
#[kani::unwind(30)]
#[kani::stub(crate::parser::parse_value, no_text_e)]
fn kb_contains_array_scalar() {
    let (a, b, c) = (sc_num2(), sc_str2(), sc_float9());
    let left = layout_array(&[a.it, b.it]);
    let right = layout_scalar(&c.it);
    assert!(contains(left.as_slice(), right.as_slice()) == (a.num == c.num));
    assert!(!contains(right.as_slice(), left.as_slice()));
}

/// strings by bytes, types must agree: [str2, num2] contains [str2']  <=>  same two bytes
#[kani::proof]
#[kani::unwind(30)]
#[kani::stub(crate::parser::parse_value, no_text_e)]
fn kb_contains_array_strings() {
    let (a, b, c) = (sc_str2(), sc_num2(), sc_str2());
    let left = layout_array(&[a.it, b.it]);
    assert!(contains(left.as_slice(), layout_array(&[c.it]).as_slice()) == a.it.same(&c.it));
}

/// {b: x, cc: y} contains {cc: z}  <=>  y == z by value (y Float64, z Int64/UInt64); {c: z} (no such key) is not contained;
/// an object never contains an array
#[kani::proof]
#[kani::unwind(34)]
#[kani::stub(crate::parser::parse_value, no_text_e)]
fn kb_contains_object() {
    let (x, y, z) = (sc_str1(), sc_float9(), sc_num2());
    let left = layout_object(&[cs(b"b"), cs(b"cc")], &[x.it, y.it]);
    assert!(contains(left.as_slice(), layout_object(&[cs(b"cc")], &[z.it]).as_slice()) == (y.num == z.num));
    assert!(!contains(left.as_slice(), layout_object(&[cs(b"c")], &[z.it]).as_slice()));
    assert!(!contains(left.as_slice(), layout_array(&[z.it]).as_slice()));
}
