// Injected as `#[cfg(kani)] mod verif_kani_edit;` (child of crate::builder) into a scratch copy of /repo.
// Bounded twins (level "bounded") of the Verus units edit / sets / contains: the PUBLIC editing, set and containment
// functions are run on flat documents of CONCRETE shape (every payload width a constant) with symbolic contents, built by
// the README layout spec (crate::verif_kani_spec), and their output is compared byte for byte with the layout of the
// expected element list computed in the harness.  Every buffer-writing call gets a NON-EMPTY output buffer: the prior
// bytes must stay untouched and the appended part must be exactly the expected document (C17).
#![allow(unused_imports, dead_code)]
use super::*;
use crate::verif_kani_spec::*;
use crate::functions::*;
use crate::{Error, Value};

/// every harness stubs the JSON text parser: a binary document must never reach the text branch
pub(crate) fn no_text_e(_buf: &[u8]) -> Result<Value<'_>, Error> {
    panic!("text branch reached with a JSONB argument")
}

// ------------------------------------------------------------------ helpers
const PRE0: u8 = 0xAA;
const PRE1: u8 = 0xBB;

/// the non-empty output buffer handed to every buffer-writing function
fn out_buf() -> Vec<u8> {
    vec![PRE0, PRE1]
}

/// buf == [PRE0, PRE1] ++ want
fn appended(buf: &Vec<u8>, want: &Buf) -> bool {
    buf.len() == 2 + want.n && buf[0] == PRE0 && buf[1] == PRE1 && want.eq_slice(&buf[2..])
}

/// buf == [PRE0, PRE1] (nothing appended)
fn untouched(buf: &Vec<u8>) -> bool {
    buf.len() == 2 && buf[0] == PRE0 && buf[1] == PRE1
}

const LMAX: usize = 8;
/// a short list of elements (expected results)
#[derive(Clone, Copy)]
struct L {
    v: [It; LMAX],
    n: usize,
}
impl L {
    fn new() -> L {
        L { v: [It { word: 0, pay: [0u8; PAYMAX], plen: 0 }; LMAX], n: 0 }
    }
    fn push(&mut self, it: It) {
        assert!(self.n < LMAX);
        self.v[self.n] = it;
        self.n += 1;
    }
    fn items(&self) -> &[It] {
        &self.v[..self.n]
    }
}

/// the element a stand-alone document becomes when it is put into an array (containers verbatim, scalars unwrapped)
fn doc_as_elem(is_container: bool, scalar: &It, doc: &Buf) -> It {
    if is_container { It::from_parts(T_CONTAINER, doc.as_slice()) } else { *scalar }
}

fn key_eq(a: &It, b: &It) -> bool {
    a.same(b)
}

fn key_str(k: &It) -> &str {
    std::str::from_utf8(k.payload()).unwrap()
}

// ------------------------------------------------------------------ C06/C17 delete_by_index
fn check_delete_by_index(a: &[It]) {
    let doc = layout_array(a);
    let index: i32 = kani::any();
    kani::assume(index >= -6 && index <= 6);
    let mut buf = out_buf();
    let r = delete_by_index(doc.as_slice(), index, &mut buf);
    assert!(r.is_ok());
    let n = a.len() as i32;
    let eff = if index < 0 { n + index } else { index }; // negative counts from the end
    let mut want = L::new();
    let mut i = 0;
    while i < a.len() {
        if i as i32 != eff { want.push(a[i]); }
        i += 1;
    }
    assert!(want.n == if eff >= 0 && eff < n { a.len() - 1 } else { a.len() }); // out of range: a copy
    assert!(appended(&buf, &layout_array(want.items())));
}

/// arrays [w2, float9, str1, w0] (payload widths 2,9,1,0), index -6..=6
#[kani::proof]
#[kani::unwind(40)]
#[kani::stub(crate::parser::parse_value, no_text_e)]
fn kb_delete_by_index4() {
    check_delete_by_index(&[sc_w2().it, sc_float9().it, sc_str1().it, sc_w0().it]);
}

/// arrays [str2, [num2], num2] (a nested container in the middle), index -6..=6
#[kani::proof]
#[kani::unwind(40)]
#[kani::stub(crate::parser::parse_value, no_text_e)]
fn kb_delete_by_index3_nested() {
    check_delete_by_index(&[sc_str2().it, it_array(&[sc_num2().it]), sc_num2().it]);
}

/// delete_by_index on an object or a scalar: Err(InvalidJsonType), nothing appended
#[kani::proof]
#[kani::unwind(40)]
#[kani::stub(crate::parser::parse_value, no_text_e)]
fn kb_delete_by_index_wrong_kind() {
    let index: i32 = kani::any();
    kani::assume(index >= -6 && index <= 6);
    let doc = if kani::any() { layout_object(&[key1()], &[sc_w2().it]) } else { layout_scalar(&sc_w2().it) };
    let mut buf = out_buf();
    let r = delete_by_index(doc.as_slice(), index, &mut buf);
    assert!(matches!(r, Err(Error::InvalidJsonType)));
    assert!(untouched(&buf));
}

// ------------------------------------------------------------------ C06/C17 array_insert
/// `value` as a list (a non-array counts as a one-element list), `new` as one element; pos -5..=5 with clamping
fn check_array_insert(list: &[It], doc: &Buf, new_elem: It, new_doc: &Buf) {
    let pos: i32 = kani::any();
    kani::assume(pos >= -5 && pos <= 5);
    let mut buf = out_buf();
    let r = array_insert(doc.as_slice(), pos, new_doc.as_slice(), &mut buf);
    assert!(r.is_ok());
    let n = list.len() as i32;
    let p = if pos < 0 { n + pos } else { pos };
    let p = if p < 0 { 0 } else if p > n { n } else { p };
    let mut want = L::new();
    let mut i = 0;
    while i < list.len() {
        if i as i32 == p { want.push(new_elem); }
        want.push(list[i]);
        i += 1;
    }
    if p == n { want.push(new_elem); }
    assert!(want.n == list.len() + 1);
    assert!(appended(&buf, &layout_array(want.items())));
}

/// [w2, str1, w0] + a new scalar (2-byte scalar or Float64)
#[kani::proof]
#[kani::unwind(40)]
#[kani::stub(crate::parser::parse_value, no_text_e)]
fn kb_array_insert_scalar() {
    let a = [sc_w2().it, sc_str1().it, sc_w0().it];
    let doc = layout_array(&a);
    let nv = if kani::any() { sc_w2().it } else { sc_float9().it };
    check_array_insert(&a, &doc, nv, &layout_scalar(&nv));
}

/// [w2, float9, w0] + a new nested container ([str1] or {k1: w0})
#[kani::proof]
#[kani::unwind(40)]
#[kani::stub(crate::parser::parse_value, no_text_e)]
fn kb_array_insert_container() {
    let a = [sc_w2().it, sc_float9().it, sc_w0().it];
    let doc = layout_array(&a);
    let nd = if kani::any() { layout_array(&[sc_str1().it]) } else { layout_object(&[key1()], &[sc_w0().it]) };
    let nv = It::from_parts(T_CONTAINER, nd.as_slice());
    check_array_insert(&a, &doc, nv, &nd);
}

/// value is an object {k1: w2} or a bare scalar: treated as a one-element list
#[kani::proof]
#[kani::unwind(40)]
#[kani::stub(crate::parser::parse_value, no_text_e)]
fn kb_array_insert_into_nonarray() {
    let s = sc_w2().it;
    let is_obj: bool = kani::any();
    let doc = if is_obj { layout_object(&[key1()], &[sc_w2().it]) } else { layout_scalar(&s) };
    let elem = doc_as_elem(is_obj, &s, &doc);
    let nv = sc_str1().it;
    check_array_insert(&[elem], &doc, nv, &layout_scalar(&nv));
}


// ------------------------------------------------------------------ drop-free transliterations of builder.rs
/// write_entry on a borrowed entry (flat builders only: the nested-builder arms must be unreachable)
fn write_entry_ref(buf: &mut Vec<u8>, entry: &Entry<'_>) -> JEntry {
    match entry {
        Entry::Raw(jentry, data) => {
            buf.extend_from_slice(data);
            jentry.clone()
        }
        _ => panic!("nested builder entry in a flat harness"),
    }
}

/// ArrayBuilder::build_into, statement for statement, but iterating by index over the borrowed entries and never
/// dropping them (CBMC otherwise explores the drop glue / nested arms of uninitialised `Entry` slots)
impl<'a> ArrayBuilder<'a> {
pub(crate) fn build_into_nodrop(self, buf: &mut Vec<u8>) -> usize {
    let this = std::mem::ManuallyDrop::new(self);
    let n = this.entries.len();
    let header = ARRAY_CONTAINER_TAG | n as u32;
    buf.write_u32::<BigEndian>(header).unwrap();

    let mut array_len = 4 + n * 4;
    let mut jentry_index = reserve_jentries(buf, n * 4);

    let mut i = 0;
    while i < n {
        let jentry = write_entry_ref(buf, &this.entries[i]);
        array_len += jentry.length as usize;
        replace_jentry(buf, jentry, &mut jentry_index);
        i += 1;
    }
    array_len
}
}

impl<'a> ObjectBuilder<'a> {
pub(crate) fn push_raw_nodrop(&mut self, key: &'a str, jentry: JEntry, data: &'a [u8]) {
    std::mem::forget(self.entries.insert(key, Entry::Raw(jentry, data)));
}

pub(crate) fn build_into_nodrop(self, buf: &mut Vec<u8>) -> usize {
    let this = std::mem::ManuallyDrop::new(self);
    let n = this.entries.len();
    let header = OBJECT_CONTAINER_TAG | n as u32;
    buf.write_u32::<BigEndian>(header).unwrap();

    let mut object_len = 4 + n * 8;
    let mut jentry_index = reserve_jentries(buf, n * 8);

    for (key, _) in this.entries.iter() {
        let key_len = key.len();
        object_len += key_len;
        buf.extend_from_slice(key.as_bytes());
        let jentry = JEntry::make_string_jentry(key_len);
        replace_jentry(buf, jentry, &mut jentry_index)
    }
    for (_, entry) in this.entries.iter() {
        let jentry = write_entry_ref(buf, entry);
        object_len += jentry.length as usize;
        replace_jentry(buf, jentry, &mut jentry_index);
    }
    object_len
}
}

// ---- experiments
fn del_case(a: &[It; 4], doc: &Buf, k: i32) {
    let mut buf = out_buf();
    let r = delete_by_index(doc.as_slice(), k, &mut buf);
    assert!(r.is_ok());
    let eff = if k < 0 { 4 + k } else { k };
    let mut want = L::new();
    let mut i = 0;
    while i < 4 { if i as i32 != eff { want.push(a[i]); } i += 1; }
    assert!(appended(&buf, &layout_array(want.items())));
}
#[kani::proof]
#[kani::unwind(40)]
#[kani::stub(crate::parser::parse_value, no_text_e)]
#[kani::stub(crate::builder::ArrayBuilder::build_into, crate::builder::ArrayBuilder::build_into_nodrop)]
fn kx_p1() {
    let a = [sc_num2().it, sc_float9().it, sc_str1().it, sc_null().it];
    let doc = layout_array(&a);
    del_case(&a, &doc, 1);
}
#[kani::proof]
#[kani::unwind(40)]
#[kani::stub(crate::parser::parse_value, no_text_e)]
#[kani::stub(crate::builder::ArrayBuilder::build_into, crate::builder::ArrayBuilder::build_into_nodrop)]
fn kx_s1() {
    check_delete_by_index(&[sc_num2().it, sc_float9().it, sc_str1().it, sc_null().it]);
}
#[kani::proof]
#[kani::unwind(40)]
#[kani::stub(crate::parser::parse_value, no_text_e)]
#[kani::stub(crate::builder::ArrayBuilder::build_into, crate::builder::ArrayBuilder::build_into_nodrop)]
fn kx_s2() {
    check_delete_by_index(&[sc_w2().it, sc_float9().it, sc_str1().it, sc_w0().it]);
}
fn ckey(s: &[u8]) -> It { It::from_parts(T_STRING, s) }
#[kani::proof]
#[kani::unwind(40)]
#[kani::stub(crate::parser::parse_value, no_text_e)]
#[kani::stub(crate::builder::ObjectBuilder::build_into, crate::builder::ObjectBuilder::build_into_nodrop)]
#[kani::stub(crate::builder::ObjectBuilder::push_raw, crate::builder::ObjectBuilder::push_raw_nodrop)]
fn kx_o3() {
    let k = [ckey(b"b"), ckey(b"cc"), ckey(b"dd")];
    let v = [sc_num2().it, sc_str1().it, sc_null().it];
    let doc = layout_object(&k, &v);
    let mut buf = out_buf();
    let r = delete_by_name(doc.as_slice(), "cc", &mut buf);
    assert!(r.is_ok());
    assert!(appended(&buf, &layout_object(&[k[0], k[2]], &[v[0], v[2]])));
}
#[kani::proof]
#[kani::unwind(40)]
#[kani::stub(crate::parser::parse_value, no_text_e)]
#[kani::stub(crate::builder::ObjectBuilder::build_into, crate::builder::ObjectBuilder::build_into_nodrop)]
#[kani::stub(crate::builder::ObjectBuilder::push_raw, crate::builder::ObjectBuilder::push_raw_nodrop)]
fn kx_o3s() {
    let k = [key1(), key2(), key2()];
    kani::assume(key_lt(&k[0], &k[1]) && key_lt(&k[1], &k[2]));
    let v = [sc_num2().it, sc_str1().it, sc_null().it];
    let doc = layout_object(&k, &v);
    let mut buf = out_buf();
    let nm = key2();
    let r = delete_by_name(doc.as_slice(), key_str(&nm), &mut buf);
    assert!(r.is_ok());
    let mut wk = L::new(); let mut wv = L::new();
    let mut i = 0;
    while i < 3 { if !key_eq(&k[i], &nm) { wk.push(k[i]); wv.push(v[i]); } i += 1; }
    assert!(appended(&buf, &layout_object(wk.items(), wv.items())));
}
