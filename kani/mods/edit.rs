// Injected as `#[cfg(kani)] mod verif_kani_edit;` -- a child of crate::BUILDER (not crate::functions): the stubs below must
// name the private `builder::Entry`.  The harnesses call the PUBLIC functions of crate::functions.
//
// Bounded twins (level "bounded") of the Verus units edit / sets / contains.  The public editing functions are run on
// documents built by the README layout spec (crate::verif_kani_spec) and their output is compared byte for byte with the
// layout of the expected element list computed in the harness.  Every buffer-writing call gets a NON-EMPTY output buffer:
// the prior bytes must stay untouched and the appended part must be exactly the expected document (C17).
//
// WHY THE STUBS (measured): builder.rs keeps `Entry` values (a recursive enum with drop glue) in a Vec / BTreeMap on the heap.
// CBMC constant-propagates heap objects of <= 64 bytes only, so the TAG of an entry read back from a Vec<Entry> with capacity
// > 2 (or from any BTreeMap node) is unknown during symbolic execution, and CBMC then unfolds the nested-builder arms of
// `write_entry` and the drop glue of `Entry` recursively on garbage (unwind^depth): `delete_by_index` on a 4-element array
// with everything concrete does not finish in 400 s.  Therefore
//   * ArrayBuilder::build_into is replaced by a statement-for-statement, DROP-FREE transliteration (`build_into_nodrop`:
//     index loop over the borrowed entries, ManuallyDrop; the real reserve_jentries / replace_jentry are kept; the kind of
//     every entry is CHECKED against the shape announced by the harness instead of being explored);
//   * ObjectBuilder (a BTreeMap<&str, Entry>) is replaced by a small sorted table with the BTreeMap semantics (ordered by
//     byte-wise str order, unique keys, last insert wins) and the same build sequence;
//   * `kb_builder_real_vs_copy*` run the REAL build_into on builders small enough for CBMC and compare with the copies.
// For the same reason every harness has a CONCRETE skeleton (types, widths, keys, index / position arguments are enumerated
// as separate concrete paths selected by a symbolic selector); the payload bytes of the values are symbolic.
#![allow(unused_imports, dead_code, static_mut_refs)]
use super::*;
use crate::functions::*;
use crate::keypath::KeyPath;
use crate::verif_kani_spec::*;
use crate::{Error, Value};
use byteorder::{BigEndian, WriteBytesExt};
use std::borrow::Cow;
use std::collections::BTreeSet;

/// every harness stubs the JSON text parser: a binary document must never reach the text branch
pub(crate) fn no_text_e(_buf: &[u8]) -> Result<Value<'_>, Error> {
    panic!("text branch reached with a JSONB argument")
}

// ------------------------------------------------------------------ drop-free transliterations of builder.rs
/// preorder list of the entry kinds the harness expects the builders to contain (0 raw, 1 nested array, 2 nested object);
/// all zero = flat.  A different kind is a harness failure (panic), it is never explored.
static mut SHAPE: [u8; 16] = [0; 16];
static mut SPOS: usize = 0;

fn set_shape(s: &[u8]) {
    unsafe {
        let mut i = 0;
        while i < 16 {
            SHAPE[i] = if i < s.len() { s[i] } else { 0 };
            i += 1;
        }
        SPOS = 0;
    }
}

/// builder.rs::write_entry on a borrowed entry
fn write_entry_ref(buf: &mut Vec<u8>, entry: &Entry<'_>) -> JEntry {
    let k = unsafe {
        let k = if SPOS < 16 { SHAPE[SPOS] } else { 0 };
        SPOS += 1;
        k
    };
    if k == 0 {
        match entry {
            Entry::Raw(jentry, data) => {
                buf.extend_from_slice(data);
                jentry.clone()
            }
            _ => panic!("entry kind differs from the announced shape (raw expected)"),
        }
    } else if k == 1 {
        match entry {
            Entry::ArrayBuilder(builder) => {
                let size = builder.build_ref(buf);
                JEntry::make_container_jentry(size)
            }
            _ => panic!("entry kind differs from the announced shape (array builder expected)"),
        }
    } else {
        panic!("nested object builders inside an array builder are handled by the object model only")
    }
}

impl<'a> ArrayBuilder<'a> {
    /// ArrayBuilder::build_into, statement for statement, on a borrowed builder
    fn build_ref(&self, buf: &mut Vec<u8>) -> usize {
        let n = self.entries.len();
        let header = ARRAY_CONTAINER_TAG | n as u32;
        buf.write_u32::<BigEndian>(header).unwrap();

        let mut array_len = 4 + n * 4;
        let mut jentry_index = reserve_jentries(buf, n * 4);

        let mut i = 0;
        while i < n {
            let jentry = write_entry_ref(buf, &self.entries[i]);
            array_len += jentry.length as usize;
            replace_jentry(buf, jentry, &mut jentry_index);
            i += 1;
        }
        array_len
    }

    /// stub for ArrayBuilder::build_into: the same, and the builder is never dropped
    pub(crate) fn build_into_nodrop(self, buf: &mut Vec<u8>) -> usize {
        let this = std::mem::ManuallyDrop::new(self);
        this.build_ref(buf)
    }

    /// stub for ArrayBuilder::push_object: the (single) modelled object builder is frozen into a byte image now and
    /// pushed as a raw container entry
    pub(crate) fn push_object_model(&mut self, builder: ObjectBuilder<'a>) {
        std::mem::forget(builder);
        unsafe {
            assert!(OB_OPEN, "push_object of a builder that is not the modelled one");
            OB_OPEN = false;
            let mut img: Vec<u8> = Vec::new();
            ob_build(&mut img);
            let img: &'static [u8] = Box::leak(img.into_boxed_slice());
            self.entries.push(Entry::Raw(JEntry::make_container_jentry(img.len()), img));
        }
    }
}

// ---- ObjectBuilder model: one live object builder, a sorted table instead of BTreeMap<&str, Entry>
const OMAX: usize = 6;
static mut OB_OPEN: bool = false;
static mut OB_N: usize = 0;
static mut OB_KEY: [(usize, usize); OMAX] = [(0, 0); OMAX]; // (address, length) of the key bytes
static mut OB_KIND: [u8; OMAX] = [0; OMAX]; // 0 raw, 1 nested array builder
static mut OB_JE: [(u32, u32); OMAX] = [(0, 0); OMAX]; // raw: (type_code, length)
static mut OB_DATA: [(usize, usize); OMAX] = [(0, 0); OMAX]; // raw: (address, length) of the payload; array: address of the leaked builder

unsafe fn bytes_at<'x>(p: (usize, usize)) -> &'x [u8] {
    std::slice::from_raw_parts(p.0 as *const u8, p.1)
}

/// -1 / 0 / 1: byte-wise lexicographic order (what Ord for str is)
fn bytes_cmp(a: &[u8], b: &[u8]) -> i8 {
    let mut i = 0;
    while i < a.len() && i < b.len() {
        if a[i] != b[i] {
            return if a[i] < b[i] { -1 } else { 1 };
        }
        i += 1;
    }
    if a.len() < b.len() { -1 } else if a.len() > b.len() { 1 } else { 0 }
}

/// BTreeMap::insert on the table: position by key order, an equal key is replaced
unsafe fn ob_insert(key: &str, kind: u8, je: (u32, u32), data: (usize, usize)) {
    assert!(OB_OPEN, "more than one live object builder is not modelled");
    let kb = key.as_bytes();
    let mut p = 0;
    let mut found = false;
    while p < OB_N {
        let c = bytes_cmp(bytes_at(OB_KEY[p]), kb);
        if c == 0 {
            found = true;
            break;
        }
        if c > 0 {
            break;
        }
        p += 1;
    }
    if !found {
        assert!(OB_N < OMAX);
        let mut j = OB_N;
        while j > p {
            OB_KEY[j] = OB_KEY[j - 1];
            OB_KIND[j] = OB_KIND[j - 1];
            OB_JE[j] = OB_JE[j - 1];
            OB_DATA[j] = OB_DATA[j - 1];
            j -= 1;
        }
        OB_N += 1;
    }
    OB_KEY[p] = (kb.as_ptr() as usize, kb.len());
    OB_KIND[p] = kind;
    OB_JE[p] = je;
    OB_DATA[p] = data;
}

/// ObjectBuilder::build_into on the table (same statement sequence: header, reserve, keys, values)
unsafe fn ob_build(buf: &mut Vec<u8>) -> usize {
    let n = OB_N;
    let header = OBJECT_CONTAINER_TAG | n as u32;
    buf.write_u32::<BigEndian>(header).unwrap();

    let mut object_len = 4 + n * 8;
    let mut jentry_index = reserve_jentries(buf, n * 8);

    let mut i = 0;
    while i < n {
        let key = bytes_at(OB_KEY[i]);
        let key_len = key.len();
        object_len += key_len;
        buf.extend_from_slice(key);
        let jentry = JEntry::make_string_jentry(key_len);
        replace_jentry(buf, jentry, &mut jentry_index);
        i += 1;
    }
    i = 0;
    while i < n {
        let jentry = if OB_KIND[i] == 0 {
            buf.extend_from_slice(bytes_at(OB_DATA[i]));
            JEntry { type_code: OB_JE[i].0, length: OB_JE[i].1 }
        } else {
            let b = &*(OB_DATA[i].0 as *const ArrayBuilder<'static>);
            let size = b.build_ref(buf);
            JEntry::make_container_jentry(size)
        };
        object_len += jentry.length as usize;
        replace_jentry(buf, jentry, &mut jentry_index);
        i += 1;
    }
    object_len
}

impl<'a> ObjectBuilder<'a> {
    pub(crate) fn new_model() -> Self {
        unsafe {
            assert!(!OB_OPEN, "more than one live object builder is not modelled");
            OB_OPEN = true;
            OB_N = 0;
        }
        Self { entries: BTreeMap::new() }
    }
    pub(crate) fn push_raw_model(&mut self, key: &'a str, jentry: JEntry, data: &'a [u8]) {
        unsafe { ob_insert(key, 0, (jentry.type_code, jentry.length), (data.as_ptr() as usize, data.len())) }
    }
    pub(crate) fn push_array_model(&mut self, key: &'a str, builder: ArrayBuilder<'a>) {
        let b: *mut ArrayBuilder<'a> = Box::into_raw(Box::new(builder)); // leaked on purpose (never dropped)
        unsafe { ob_insert(key, 1, (0, 0), (b as usize, 0)) }
    }
    pub(crate) fn push_object_model(&mut self, _key: &'a str, _builder: ObjectBuilder<'a>) {
        panic!("an object builder nested in an object builder is not modelled")
    }
    pub(crate) fn build_into_model(self, buf: &mut Vec<u8>) -> usize {
        std::mem::forget(self);
        unsafe {
            assert!(OB_OPEN);
            OB_OPEN = false;
            ob_build(buf)
        }
    }
}

// ------------------------------------------------------------------ helpers
const PRE0: u8 = 0xAA;
const PRE1: u8 = 0xBB;

/// the non-empty output buffer handed to every buffer-writing function
fn out_buf() -> Vec<u8> {
    vec![PRE0, PRE1]
}

/// buf == [PRE0, PRE1] ++ want
fn appended(buf: &Vec<u8>, want: &Buf) -> bool {
    buf.len() == 2 + want.n && buf[0] == PRE0 && buf[1] == PRE1 && want.eq_slice(&buf[2..])
}

/// buf == [PRE0, PRE1] (nothing appended)
fn untouched(buf: &Vec<u8>) -> bool {
    buf.len() == 2 && buf[0] == PRE0 && buf[1] == PRE1
}

const LMAX: usize = 8;
/// a short list of elements (expected results); only ever indexed / filled with concrete counters
#[derive(Clone, Copy)]
struct L {
    v: [It; LMAX],
    n: usize,
}
impl L {
    fn new() -> L {
        L { v: [It { word: 0, pay: [0u8; PAYMAX], plen: 0 }; LMAX], n: 0 }
    }
    fn push(&mut self, it: It) {
        assert!(self.n < LMAX);
        self.v[self.n] = it;
        self.n += 1;
    }
    fn items(&self) -> &[It] {
        &self.v[..self.n]
    }
}

// concrete-type elements (the entry word is a constant, payload bytes symbolic)
fn n2() -> It { sc_num2().it }
fn f9() -> It { sc_float9().it }
fn s1() -> It { sc_str1().it }
fn s2() -> It { sc_str2().it }
fn nul() -> It { sc_null().it }
fn tru() -> It { It::from_parts(T_TRUE, &[]) }
/// a concrete string / key
fn cs(s: &[u8]) -> It { It::from_parts(T_STRING, s) }
/// a container document as an element of an enclosing container
fn elem_of(doc: &Buf) -> It { It::from_parts(T_CONTAINER, doc.as_slice()) }

// ------------------------------------------------------------------ the drop-free copies against the REAL builder
/// REAL ArrayBuilder::build_into (2 raw entries: small enough for CBMC to resolve) == the copy, into a non-empty buffer
#[kani::proof]
#[kani::unwind(12)]
fn kb_builder_real_vs_copy_array() {
    let p: [u8; 2] = kani::any();
    let q: [u8; 1] = kani::any();
    let mut b1 = ArrayBuilder::new(2);
    b1.push_raw(JEntry::make_number_jentry(2), &p);
    b1.push_raw(JEntry::make_string_jentry(1), &q);
    let mut b2 = ArrayBuilder::new(2);
    b2.push_raw(JEntry::make_number_jentry(2), &p);
    b2.push_raw(JEntry::make_string_jentry(1), &q);
    let mut o1 = out_buf();
    let mut o2 = out_buf();
    let l1 = b1.build_into(&mut o1);
    set_shape(&[]);
    let l2 = b2.build_into_nodrop(&mut o2);
    assert!(l1 == l2 && l1 == 15);
    assert!(o1 == o2);
    let want = layout_array(&[It::from_parts(T_NUMBER, &p), It::from_parts(T_STRING, &q)]);
    assert!(appended(&o1, &want));
}

// ------------------------------------------------------------------ C06/C17 delete_by_index
fn case_delete_by_index(a: &[It], doc: &Buf, index: i32) {
    set_shape(&[]);
    let mut buf = out_buf();
    let r = delete_by_index(doc.as_slice(), index, &mut buf);
    assert!(r.is_ok());
    let n = a.len() as i32;
    let eff = if index < 0 { n + index } else { index }; // negative counts from the end
    let mut want = L::new();
    let mut i = 0;
    while i < a.len() {
        if i as i32 != eff { want.push(a[i]); }
        i += 1;
    }
    assert!(want.n == if eff >= 0 && eff < n { a.len() - 1 } else { a.len() }); // out of range: a copy
    assert!(appended(&buf, &layout_array(want.items())));
}

/// [num2, float9, str1] (payload widths 2,9,1), index in {-6,-4,-3,-2,-1}
#[kani::proof]
#[kani::unwind(50)]
#[kani::stub(crate::parser::parse_value, no_text_e)]
#[kani::stub(crate::builder::ArrayBuilder::build_into, crate::builder::ArrayBuilder::build_into_nodrop)]
fn kb_delete_by_index_neg() {
    let a = [n2(), f9(), s1()];
    let doc = layout_array(&a);
    let index: i32 = kani::any();
    kani::assume(index == -6 || (index >= -4 && index <= -1));
    let mut k = -6;
    while k <= -1 {
        if index == k { case_delete_by_index(&a, &doc, k); }
        k += 1;
    }
}

/// [str2, null, num2, str1] (widths 2,0,2,1), index in {0,1,2,3,4,6}
#[kani::proof]
#[kani::unwind(50)]
#[kani::stub(crate::parser::parse_value, no_text_e)]
#[kani::stub(crate::builder::ArrayBuilder::build_into, crate::builder::ArrayBuilder::build_into_nodrop)]
fn kb_delete_by_index_pos() {
    let a = [s2(), nul(), n2(), s1()];
    let doc = layout_array(&a);
    let index: i32 = kani::any();
    kani::assume(index >= 0 && index <= 6 && index != 5);
    let mut k = 0;
    while k <= 6 {
        if index == k { case_delete_by_index(&a, &doc, k); }
        k += 1;
    }
}

/// delete_by_index on an object or a scalar: Err(InvalidJsonType), nothing appended
#[kani::proof]
#[kani::unwind(50)]
#[kani::stub(crate::parser::parse_value, no_text_e)]
fn kb_delete_by_index_wrong_kind() {
    let index: i32 = kani::any();
    kani::assume(index >= -6 && index <= 6);
    let doc = if kani::any() { layout_object(&[cs(b"b")], &[n2()]) } else { layout_scalar(&n2()) };
    let mut buf = out_buf();
    let r = delete_by_index(doc.as_slice(), index, &mut buf);
    assert!(matches!(r, Err(Error::InvalidJsonType)));
    assert!(untouched(&buf));
}

// ------------------------------------------------------------------ C06/C17 array_insert
/// `list`: the value as a list (a non-array counts as a one-element list); `new_elem`: the new value as an element
fn case_array_insert(list: &[It], doc: &Buf, new_elem: It, new_doc: &Buf, pos: i32) {
    set_shape(&[]);
    let mut buf = out_buf();
    let r = array_insert(doc.as_slice(), pos, new_doc.as_slice(), &mut buf);
    assert!(r.is_ok());
    let n = list.len() as i32;
    let p = if pos < 0 { n + pos } else { pos };
    let p = if p < 0 { 0 } else if p > n { n } else { p }; // clamping
    let mut want = L::new();
    let mut i = 0;
    while i < list.len() {
        if i as i32 == p { want.push(new_elem); }
        want.push(list[i]);
        i += 1;
    }
    if p == n { want.push(new_elem); }
    assert!(want.n == list.len() + 1);
    assert!(appended(&buf, &layout_array(want.items())));
}

/// [num2, str1, null] + a new Float64 scalar, pos in {-5,-3,-2,-1}
#[kani::proof]
#[kani::unwind(50)]
#[kani::stub(crate::parser::parse_value, no_text_e)]
#[kani::stub(crate::builder::ArrayBuilder::build_into, crate::builder::ArrayBuilder::build_into_nodrop)]
fn kb_array_insert_scalar_neg() {
    let a = [n2(), s1(), nul()];
    let doc = layout_array(&a);
    let nv = f9();
    let nd = layout_scalar(&nv);
    let pos: i32 = kani::any();
    kani::assume(pos == -5 || (pos >= -3 && pos <= -1));
    let mut k = -5;
    while k <= -1 {
        if pos == k { case_array_insert(&a, &doc, nv, &nd, k); }
        k += 1;
    }
}

/// [str2, num2, str1] + a new 2-byte number, pos in {0,1,3,5}
#[kani::proof]
#[kani::unwind(50)]
#[kani::stub(crate::parser::parse_value, no_text_e)]
#[kani::stub(crate::builder::ArrayBuilder::build_into, crate::builder::ArrayBuilder::build_into_nodrop)]
fn kb_array_insert_scalar_pos() {
    let a = [s2(), n2(), s1()];
    let doc = layout_array(&a);
    let nv = n2();
    let nd = layout_scalar(&nv);
    let pos: i32 = kani::any();
    kani::assume(pos == 0 || pos == 1 || pos == 3 || pos == 5);
    let mut k = 0;
    while k <= 5 {
        if pos == k { case_array_insert(&a, &doc, nv, &nd, k); }
        k += 1;
    }
}

/// [num2, float9, null] + a new nested container: the array [str1] at pos -1 / 4, the object {b: null} at pos 1
#[kani::proof]
#[kani::unwind(50)]
#[kani::stub(crate::parser::parse_value, no_text_e)]
#[kani::stub(crate::builder::ArrayBuilder::build_into, crate::builder::ArrayBuilder::build_into_nodrop)]
fn kb_array_insert_container() {
    let a = [n2(), f9(), nul()];
    let doc = layout_array(&a);
    let sel: u8 = kani::any();
    if sel == 0 {
        let nd = layout_array(&[s1()]);
        case_array_insert(&a, &doc, elem_of(&nd), &nd, -1);
    } else if sel == 1 {
        let nd = layout_array(&[s1()]);
        case_array_insert(&a, &doc, elem_of(&nd), &nd, 4);
    } else {
        let nd = layout_object(&[cs(b"b")], &[nul()]);
        case_array_insert(&a, &doc, elem_of(&nd), &nd, 1);
    }
}

/// the value is an object {b: num2} (pos -1, 1) or a bare scalar (pos -2, 0, 2): it is treated as a one-element list
#[kani::proof]
#[kani::unwind(50)]
#[kani::stub(crate::parser::parse_value, no_text_e)]
#[kani::stub(crate::builder::ArrayBuilder::build_into, crate::builder::ArrayBuilder::build_into_nodrop)]
fn kb_array_insert_into_nonarray() {
    let nv = s1();
    let nd = layout_scalar(&nv);
    let sel: u8 = kani::any();
    kani::assume(sel < 5);
    if sel < 2 {
        let doc = layout_object(&[cs(b"b")], &[n2()]);
        let e = elem_of(&doc);
        if sel == 0 { case_array_insert(&[e], &doc, nv, &nd, -1); } else { case_array_insert(&[e], &doc, nv, &nd, 1); }
    } else {
        let s = n2();
        let doc = layout_scalar(&s);
        if sel == 2 { case_array_insert(&[s], &doc, nv, &nd, -2); }
        else if sel == 3 { case_array_insert(&[s], &doc, nv, &nd, 0); }
        else { case_array_insert(&[s], &doc, nv, &nd, 2); }
    }
}

// ------------------------------------------------------------------ C06/C17 delete_by_name
/// arrays with STRING elements: ["@a", <number whose payload bytes are "@a">, "@", "@a", null]; names "@a" (two hits,
/// the number with identical payload bytes stays), "@" (one hit), "zz" (no hit)
#[kani::proof]
#[kani::unwind(50)]
#[kani::stub(crate::parser::parse_value, no_text_e)]
#[kani::stub(crate::builder::ArrayBuilder::build_into, crate::builder::ArrayBuilder::build_into_nodrop)]
fn kb_delete_by_name_array() {
    let num = It::from_parts(T_NUMBER, &[0x40, 0x61]); // Int64 97: payload bytes == "@a"
    let a = [cs(b"@a"), num, cs(b"@"), cs(b"@a"), nul()];
    let doc = layout_array(&a);
    let sel: u8 = kani::any();
    kani::assume(sel < 3);
    set_shape(&[]);
    let mut buf = out_buf();
    if sel == 0 {
        assert!(delete_by_name(doc.as_slice(), "@a", &mut buf).is_ok());
        assert!(appended(&buf, &layout_array(&[a[1], a[2], a[4]])));
    } else if sel == 1 {
        assert!(delete_by_name(doc.as_slice(), "@", &mut buf).is_ok());
        assert!(appended(&buf, &layout_array(&[a[0], a[1], a[3], a[4]])));
    } else {
        assert!(delete_by_name(doc.as_slice(), "zz", &mut buf).is_ok());
        assert!(appended(&buf, &doc));
    }
}

const KB: &[u8] = b"b";
const KCC: &[u8] = b"cc";
const KDD: &[u8] = b"dd";

/// objects {b: num2, cc: float9, dd: str1} (key widths 1,2,2): names b / cc / dd (first, middle, last member), c and zz (no hit)
#[kani::proof]
#[kani::unwind(50)]
#[kani::stub(crate::parser::parse_value, no_text_e)]
#[kani::stub(crate::builder::ObjectBuilder::new, crate::builder::ObjectBuilder::new_model)]
#[kani::stub(crate::builder::ObjectBuilder::push_raw, crate::builder::ObjectBuilder::push_raw_model)]
#[kani::stub(crate::builder::ObjectBuilder::build_into, crate::builder::ObjectBuilder::build_into_model)]
fn kb_delete_by_name_object() {
    let k = [cs(KB), cs(KCC), cs(KDD)];
    let v = [n2(), f9(), s1()];
    let doc = layout_object(&k, &v);
    let sel: u8 = kani::any();
    kani::assume(sel < 5);
    let mut buf = out_buf();
    if sel == 0 {
        assert!(delete_by_name(doc.as_slice(), "b", &mut buf).is_ok());
        assert!(appended(&buf, &layout_object(&[k[1], k[2]], &[v[1], v[2]])));
    } else if sel == 1 {
        assert!(delete_by_name(doc.as_slice(), "cc", &mut buf).is_ok());
        assert!(appended(&buf, &layout_object(&[k[0], k[2]], &[v[0], v[2]])));
    } else if sel == 2 {
        assert!(delete_by_name(doc.as_slice(), "dd", &mut buf).is_ok());
        assert!(appended(&buf, &layout_object(&[k[0], k[1]], &[v[0], v[1]])));
    } else if sel == 3 {
        assert!(delete_by_name(doc.as_slice(), "c", &mut buf).is_ok());
        assert!(appended(&buf, &doc));
    } else {
        assert!(delete_by_name(doc.as_slice(), "zz", &mut buf).is_ok());
        assert!(appended(&buf, &doc));
    }
}

/// delete_by_name on a scalar: Err(InvalidJsonType), nothing appended
#[kani::proof]
#[kani::unwind(20)]
#[kani::stub(crate::parser::parse_value, no_text_e)]
fn kb_delete_by_name_wrong_kind() {
    let doc = layout_scalar(&s2());
    let mut buf = out_buf();
    let r = delete_by_name(doc.as_slice(), "b", &mut buf);
    assert!(matches!(r, Err(Error::InvalidJsonType)));
    assert!(untouched(&buf));
}

// ------------------------------------------------------------------ C06/C17 concat
/// array ++ array: [num2, str1] ++ [float9, null, str2]
#[kani::proof]
#[kani::unwind(50)]
#[kani::stub(crate::parser::parse_value, no_text_e)]
#[kani::stub(crate::builder::ArrayBuilder::build_into, crate::builder::ArrayBuilder::build_into_nodrop)]
fn kb_concat_array_array() {
    let a = [n2(), s1()];
    let b = [f9(), nul(), s2()];
    let (da, db) = (layout_array(&a), layout_array(&b));
    set_shape(&[]);
    let mut buf = out_buf();
    assert!(concat(da.as_slice(), db.as_slice(), &mut buf).is_ok());
    assert!(appended(&buf, &layout_array(&[a[0], a[1], b[0], b[1], b[2]])));
}

/// everything else is wrapped: scalar ++ array, array ++ scalar, scalar ++ scalar, object ++ array, array ++ object
#[kani::proof]
#[kani::unwind(50)]
#[kani::stub(crate::parser::parse_value, no_text_e)]
#[kani::stub(crate::builder::ArrayBuilder::build_into, crate::builder::ArrayBuilder::build_into_nodrop)]
fn kb_concat_wrap() {
    let s = f9();
    let ds = layout_scalar(&s);
    let a = [n2(), s1()];
    let da = layout_array(&a);
    let dobj = layout_object(&[cs(KB)], &[n2()]);
    let t = s2();
    let dt = layout_scalar(&t);
    let sel: u8 = kani::any();
    kani::assume(sel < 5);
    set_shape(&[]);
    let mut buf = out_buf();
    if sel == 0 {
        assert!(concat(ds.as_slice(), da.as_slice(), &mut buf).is_ok());
        assert!(appended(&buf, &layout_array(&[s, a[0], a[1]])));
    } else if sel == 1 {
        assert!(concat(da.as_slice(), ds.as_slice(), &mut buf).is_ok());
        assert!(appended(&buf, &layout_array(&[a[0], a[1], s])));
    } else if sel == 2 {
        assert!(concat(ds.as_slice(), dt.as_slice(), &mut buf).is_ok());
        assert!(appended(&buf, &layout_array(&[s, t])));
    } else if sel == 3 {
        assert!(concat(dobj.as_slice(), da.as_slice(), &mut buf).is_ok());
        assert!(appended(&buf, &layout_array(&[elem_of(&dobj), a[0], a[1]])));
    } else {
        assert!(concat(da.as_slice(), dobj.as_slice(), &mut buf).is_ok());
        assert!(appended(&buf, &layout_array(&[a[0], a[1], elem_of(&dobj)])));
    }
}

/// object ++ object with interleaved keys; on the equal key "cc" the right side wins:
/// {b: num2, cc: str1} ++ {a: null, cc: num2, d: str1} == {a: null, b: num2, cc: num2', d: str1}; and without a collision
#[kani::proof]
#[kani::unwind(50)]
#[kani::stub(crate::parser::parse_value, no_text_e)]
#[kani::stub(crate::builder::ObjectBuilder::new, crate::builder::ObjectBuilder::new_model)]
#[kani::stub(crate::builder::ObjectBuilder::push_raw, crate::builder::ObjectBuilder::push_raw_model)]
#[kani::stub(crate::builder::ObjectBuilder::build_into, crate::builder::ObjectBuilder::build_into_model)]
fn kb_concat_object_object() {
    let lk = [cs(KB), cs(KCC)];
    let lv = [n2(), s1()];
    let dl = layout_object(&lk, &lv);
    let mut buf = out_buf();
    if kani::any() {
        let rk = [cs(b"a"), cs(KCC), cs(b"d")];
        let rv = [nul(), n2(), s1()];
        let dr = layout_object(&rk, &rv);
        assert!(concat(dl.as_slice(), dr.as_slice(), &mut buf).is_ok());
        assert!(appended(&buf, &layout_object(&[rk[0], lk[0], rk[1], rk[2]], &[rv[0], lv[0], rv[1], rv[2]])));
    } else {
        let rk = [cs(b"c")];
        let rv = [n2()];
        let dr = layout_object(&rk, &rv);
        assert!(concat(dl.as_slice(), dr.as_slice(), &mut buf).is_ok());
        assert!(appended(&buf, &layout_object(&[lk[0], rk[0], lk[1]], &[lv[0], rv[0], lv[1]])));
    }
}

// ------------------------------------------------------------------ C06/C17 object_insert
/// {b: num2, cc: str1, dd: null} + a NEW key: "a" (smaller than all), "c" (between b and cc), "cd" (between cc and dd),
/// "e" (larger than all) with a scalar value; and {b, dd} + "c" with a nested array as the value
#[kani::proof]
#[kani::unwind(50)]
#[kani::stub(crate::parser::parse_value, no_text_e)]
#[kani::stub(crate::builder::ObjectBuilder::new, crate::builder::ObjectBuilder::new_model)]
#[kani::stub(crate::builder::ObjectBuilder::push_raw, crate::builder::ObjectBuilder::push_raw_model)]
#[kani::stub(crate::builder::ObjectBuilder::build_into, crate::builder::ObjectBuilder::build_into_model)]
fn kb_object_insert_new_key() {
    let k = [cs(KB), cs(KCC), cs(KDD)];
    let v = [n2(), s1(), nul()];
    let doc = layout_object(&k, &v);
    let nv = s2();
    let nd = layout_scalar(&nv);
    let flag: bool = kani::any();
    let sel: u8 = kani::any();
    kani::assume(sel < 5);
    let mut buf = out_buf();
    if sel == 0 {
        assert!(object_insert(doc.as_slice(), "a", nd.as_slice(), flag, &mut buf).is_ok());
        assert!(appended(&buf, &layout_object(&[cs(b"a"), k[0], k[1], k[2]], &[nv, v[0], v[1], v[2]])));
    } else if sel == 1 {
        assert!(object_insert(doc.as_slice(), "c", nd.as_slice(), flag, &mut buf).is_ok());
        assert!(appended(&buf, &layout_object(&[k[0], cs(b"c"), k[1], k[2]], &[v[0], nv, v[1], v[2]])));
    } else if sel == 2 {
        assert!(object_insert(doc.as_slice(), "cd", nd.as_slice(), flag, &mut buf).is_ok());
        assert!(appended(&buf, &layout_object(&[k[0], k[1], cs(b"cd"), k[2]], &[v[0], v[1], nv, v[2]])));
    } else if sel == 3 {
        assert!(object_insert(doc.as_slice(), "e", nd.as_slice(), flag, &mut buf).is_ok());
        assert!(appended(&buf, &layout_object(&[k[0], k[1], k[2], cs(b"e")], &[v[0], v[1], v[2], nv])));
    } else {
        // a nested container as the new value, between the two members of {b: num2, dd: str1}
        let doc2 = layout_object(&[k[0], k[2]], &[v[0], v[1]]);
        let na = layout_array(&[n2()]);
        assert!(object_insert(doc2.as_slice(), "c", na.as_slice(), flag, &mut buf).is_ok());
        assert!(appended(&buf, &layout_object(&[k[0], cs(b"c"), k[2]], &[v[0], elem_of(&na), v[1]])));
    }
}

/// an EXISTING key (first / middle / last member): with the update flag the value is replaced, without it
/// Err(ObjectDuplicateKey) and the buffer is unchanged; a non-object value gives Err(InvalidObject)
#[kani::proof]
#[kani::unwind(50)]
#[kani::stub(crate::parser::parse_value, no_text_e)]
#[kani::stub(crate::builder::ObjectBuilder::new, crate::builder::ObjectBuilder::new_model)]
#[kani::stub(crate::builder::ObjectBuilder::push_raw, crate::builder::ObjectBuilder::push_raw_model)]
#[kani::stub(crate::builder::ObjectBuilder::build_into, crate::builder::ObjectBuilder::build_into_model)]
fn kb_object_insert_duplicate() {
    let k = [cs(KB), cs(KCC), cs(KDD)];
    let v = [n2(), s1(), nul()];
    let doc = layout_object(&k, &v);
    let nv = f9();
    let nd = layout_scalar(&nv);
    let sel: u8 = kani::any();
    kani::assume(sel < 7);
    let mut buf = out_buf();
    if sel == 0 {
        assert!(object_insert(doc.as_slice(), "b", nd.as_slice(), true, &mut buf).is_ok());
        assert!(appended(&buf, &layout_object(&k, &[nv, v[1], v[2]])));
    } else if sel == 1 {
        assert!(object_insert(doc.as_slice(), "cc", nd.as_slice(), true, &mut buf).is_ok());
        assert!(appended(&buf, &layout_object(&k, &[v[0], nv, v[2]])));
    } else if sel == 2 {
        assert!(object_insert(doc.as_slice(), "dd", nd.as_slice(), true, &mut buf).is_ok());
        assert!(appended(&buf, &layout_object(&k, &[v[0], v[1], nv])));
    } else if sel == 3 {
        let r = object_insert(doc.as_slice(), "b", nd.as_slice(), false, &mut buf);
        assert!(matches!(r, Err(Error::ObjectDuplicateKey)));
        assert!(untouched(&buf));
    } else if sel == 4 {
        let r = object_insert(doc.as_slice(), "cc", nd.as_slice(), false, &mut buf);
        assert!(matches!(r, Err(Error::ObjectDuplicateKey)));
        assert!(untouched(&buf));
    } else if sel == 5 {
        let r = object_insert(doc.as_slice(), "dd", nd.as_slice(), false, &mut buf);
        assert!(matches!(r, Err(Error::ObjectDuplicateKey)));
        assert!(untouched(&buf));
    } else {
        let da = layout_array(&[n2()]);
        let r = object_insert(da.as_slice(), "b", nd.as_slice(), kani::any(), &mut buf);
        assert!(matches!(r, Err(Error::InvalidObject)));
        assert!(untouched(&buf));
    }
}

// ------------------------------------------------------------------ C06/C17 object_delete / object_pick
fn case_object_delete_pick(keys: &BTreeSet<&str>, del: [bool; 3]) {
    let k = [cs(KB), cs(KCC), cs(KDD)];
    let v = [n2(), s1(), f9()];
    let doc = layout_object(&k, &v);
    let (mut dk, mut dv, mut pk, mut pv) = (L::new(), L::new(), L::new(), L::new());
    let mut i = 0;
    while i < 3 {
        if del[i] { pk.push(k[i]); pv.push(v[i]); } else { dk.push(k[i]); dv.push(v[i]); }
        i += 1;
    }
    let mut buf = out_buf();
    assert!(object_delete(doc.as_slice(), keys, &mut buf).is_ok());
    assert!(appended(&buf, &layout_object(dk.items(), dv.items())));
    let mut buf2 = out_buf();
    assert!(object_pick(doc.as_slice(), keys, &mut buf2).is_ok());
    assert!(appended(&buf2, &layout_object(pk.items(), pv.items())));
}

/// {b, cc, dd} with the key sets {cc}, {b, dd}, {zz}: delete keeps the others, pick keeps exactly these
#[kani::proof]
#[kani::unwind(50)]
#[kani::stub(crate::parser::parse_value, no_text_e)]
#[kani::stub(crate::builder::ObjectBuilder::new, crate::builder::ObjectBuilder::new_model)]
#[kani::stub(crate::builder::ObjectBuilder::push_raw, crate::builder::ObjectBuilder::push_raw_model)]
#[kani::stub(crate::builder::ObjectBuilder::build_into, crate::builder::ObjectBuilder::build_into_model)]
fn kb_object_delete_pick() {
    let sel: u8 = kani::any();
    kani::assume(sel < 3);
    let mut keys: BTreeSet<&str> = BTreeSet::new();
    if sel == 0 {
        keys.insert("cc");
        case_object_delete_pick(&keys, [false, true, false]);
    } else if sel == 1 {
        keys.insert("dd");
        keys.insert("b");
        case_object_delete_pick(&keys, [true, false, true]);
    } else {
        keys.insert("zz");
        case_object_delete_pick(&keys, [false, false, false]);
    }
}

// ------------------------------------------------------------------ C06/C17 strip_nulls
/// {b: null, cc: [null, num2], dd: str1} -> {cc: [null, num2], dd: str1} and {b: [null, num2], cc: null, dd: null} -> {b: [..]}:
/// null members go, array nulls stay
#[kani::proof]
#[kani::unwind(50)]
#[kani::stub(crate::parser::parse_value, no_text_e)]
#[kani::stub(crate::builder::ArrayBuilder::build_into, crate::builder::ArrayBuilder::build_into_nodrop)]
#[kani::stub(crate::builder::ObjectBuilder::new, crate::builder::ObjectBuilder::new_model)]
#[kani::stub(crate::builder::ObjectBuilder::push_raw, crate::builder::ObjectBuilder::push_raw_model)]
#[kani::stub(crate::builder::ObjectBuilder::push_array, crate::builder::ObjectBuilder::push_array_model)]
#[kani::stub(crate::builder::ObjectBuilder::push_object, crate::builder::ObjectBuilder::push_object_model)]
#[kani::stub(crate::builder::ObjectBuilder::build_into, crate::builder::ObjectBuilder::build_into_model)]
fn kb_strip_nulls_object() {
    let inner = [nul(), n2()];
    let arr = It::from_parts(T_CONTAINER, layout_array(&inner).as_slice());
    let k = [cs(KB), cs(KCC), cs(KDD)];
    set_shape(&[]);
    let mut buf = out_buf();
    if kani::any() {
        let v = [nul(), arr, s1()];
        let doc = layout_object(&k, &v);
        assert!(strip_nulls(doc.as_slice(), &mut buf).is_ok());
        assert!(appended(&buf, &layout_object(&[k[1], k[2]], &[v[1], v[2]])));
    } else {
        let v = [arr, nul(), nul()];
        let doc = layout_object(&k, &v);
        assert!(strip_nulls(doc.as_slice(), &mut buf).is_ok());
        assert!(appended(&buf, &layout_object(&[k[0]], &[v[0]])));
    }
}

/// [null, {b: null, c: num2}] -> [null, {c: num2}] (object members inside an array) and
/// [null, [null, [null]], str1] unchanged (array nulls are kept at every depth)
#[kani::proof]
#[kani::unwind(50)]
#[kani::stub(crate::parser::parse_value, no_text_e)]
#[kani::stub(crate::builder::ArrayBuilder::build_into, crate::builder::ArrayBuilder::build_into_nodrop)]
#[kani::stub(crate::builder::ArrayBuilder::push_object, crate::builder::ArrayBuilder::push_object_model)]
#[kani::stub(crate::builder::ObjectBuilder::new, crate::builder::ObjectBuilder::new_model)]
#[kani::stub(crate::builder::ObjectBuilder::push_raw, crate::builder::ObjectBuilder::push_raw_model)]
#[kani::stub(crate::builder::ObjectBuilder::push_array, crate::builder::ObjectBuilder::push_array_model)]
#[kani::stub(crate::builder::ObjectBuilder::push_object, crate::builder::ObjectBuilder::push_object_model)]
#[kani::stub(crate::builder::ObjectBuilder::build_into, crate::builder::ObjectBuilder::build_into_model)]
fn kb_strip_nulls_array() {
    let mut buf = out_buf();
    if kani::any() {
        let num = n2();
        let obj = layout_object(&[cs(KB), cs(b"c")], &[nul(), num]);
        let obj2 = layout_object(&[cs(b"c")], &[num]);
        let doc = layout_array(&[nul(), elem_of(&obj)]);
        set_shape(&[]); // raw, raw (the frozen object image)
        assert!(strip_nulls(doc.as_slice(), &mut buf).is_ok());
        assert!(appended(&buf, &layout_array(&[nul(), elem_of(&obj2)])));
    } else {
        let deep = layout_array(&[nul(), elem_of(&layout_array(&[nul()]))]);
        let doc = layout_array(&[nul(), elem_of(&deep), s1()]);
        set_shape(&[0, 1, 0, 1, 0, 0]); // raw, array(raw, array(raw)), raw
        assert!(strip_nulls(doc.as_slice(), &mut buf).is_ok());
        assert!(appended(&buf, &doc));
    }
}

/// strip_nulls of a scalar copies it
#[kani::proof]
#[kani::unwind(20)]
#[kani::stub(crate::parser::parse_value, no_text_e)]
fn kb_strip_nulls_scalar() {
    let doc = if kani::any() { layout_scalar(&nul()) } else { layout_scalar(&n2()) };
    let mut buf = out_buf();
    assert!(strip_nulls(doc.as_slice(), &mut buf).is_ok());
    assert!(appended(&buf, &doc));
}

// ------------------------------------------------------------------ C06/C17 delete_by_keypath
/// [num2, [str1, null, num2], str2]: paths [1] / [-3] / [3] (one step: delete, delete from the end, out of range = copy)
/// and [1, -1] / [1, 0] (two steps into the nested array)
#[kani::proof]
#[kani::unwind(50)]
#[kani::stub(crate::parser::parse_value, no_text_e)]
#[kani::stub(crate::builder::ArrayBuilder::build_into, crate::builder::ArrayBuilder::build_into_nodrop)]
fn kb_delete_by_keypath_array() {
    let inner = [s1(), nul(), n2()];
    let a = [n2(), It::from_parts(T_CONTAINER, layout_array(&inner).as_slice()), s2()];
    let doc = layout_array(&a);
    let sel: u8 = kani::any();
    kani::assume(sel < 5);
    let mut buf = out_buf();
    if sel == 0 {
        set_shape(&[]);
        let p = [KeyPath::Index(1)];
        assert!(delete_by_keypath(doc.as_slice(), p.iter(), &mut buf).is_ok());
        assert!(appended(&buf, &layout_array(&[a[0], a[2]])));
    } else if sel == 1 {
        set_shape(&[]);
        let p = [KeyPath::Index(-3)];
        assert!(delete_by_keypath(doc.as_slice(), p.iter(), &mut buf).is_ok());
        assert!(appended(&buf, &layout_array(&[a[1], a[2]])));
    } else if sel == 2 {
        let p = [KeyPath::Index(3)];
        assert!(delete_by_keypath(doc.as_slice(), p.iter(), &mut buf).is_ok());
        assert!(appended(&buf, &doc));
    } else if sel == 3 {
        set_shape(&[0, 1, 0, 0, 0]);
        let p = [KeyPath::Index(1), KeyPath::Index(-1)];
        assert!(delete_by_keypath(doc.as_slice(), p.iter(), &mut buf).is_ok());
        let e = It::from_parts(T_CONTAINER, layout_array(&[inner[0], inner[1]]).as_slice());
        assert!(appended(&buf, &layout_array(&[a[0], e, a[2]])));
    } else {
        set_shape(&[0, 1, 0, 0, 0]);
        let p = [KeyPath::Index(1), KeyPath::Index(0)];
        assert!(delete_by_keypath(doc.as_slice(), p.iter(), &mut buf).is_ok());
        let e = It::from_parts(T_CONTAINER, layout_array(&[inner[1], inner[2]]).as_slice());
        assert!(appended(&buf, &layout_array(&[a[0], e, a[2]])));
    }
}

/// {b: num2, cc: [str1, null], dd: null}: paths [cc] (Name), ["dd"] (QuotedName), [zz] (no such member: unchanged),
/// [cc, 0] (into the nested array), [0] (an index step on an object: unchanged)
#[kani::proof]
#[kani::unwind(50)]
#[kani::stub(crate::parser::parse_value, no_text_e)]
#[kani::stub(crate::builder::ArrayBuilder::build_into, crate::builder::ArrayBuilder::build_into_nodrop)]
#[kani::stub(crate::builder::ObjectBuilder::new, crate::builder::ObjectBuilder::new_model)]
#[kani::stub(crate::builder::ObjectBuilder::push_raw, crate::builder::ObjectBuilder::push_raw_model)]
#[kani::stub(crate::builder::ObjectBuilder::push_array, crate::builder::ObjectBuilder::push_array_model)]
#[kani::stub(crate::builder::ObjectBuilder::push_object, crate::builder::ObjectBuilder::push_object_model)]
#[kani::stub(crate::builder::ObjectBuilder::build_into, crate::builder::ObjectBuilder::build_into_model)]
fn kb_delete_by_keypath_object() {
    let inner = [s1(), nul()];
    let k = [cs(KB), cs(KCC), cs(KDD)];
    let v = [n2(), It::from_parts(T_CONTAINER, layout_array(&inner).as_slice()), nul()];
    let doc = layout_object(&k, &v);
    let sel: u8 = kani::any();
    kani::assume(sel < 5);
    set_shape(&[]);
    let mut buf = out_buf();
    if sel == 0 {
        let p = [KeyPath::Name(Cow::Borrowed("cc"))];
        assert!(delete_by_keypath(doc.as_slice(), p.iter(), &mut buf).is_ok());
        assert!(appended(&buf, &layout_object(&[k[0], k[2]], &[v[0], v[2]])));
    } else if sel == 1 {
        let p = [KeyPath::QuotedName(Cow::Borrowed("dd"))];
        assert!(delete_by_keypath(doc.as_slice(), p.iter(), &mut buf).is_ok());
        assert!(appended(&buf, &layout_object(&[k[0], k[1]], &[v[0], v[1]])));
    } else if sel == 2 {
        let p = [KeyPath::Name(Cow::Borrowed("zz"))];
        assert!(delete_by_keypath(doc.as_slice(), p.iter(), &mut buf).is_ok());
        assert!(appended(&buf, &doc));
    } else if sel == 3 {
        let p = [KeyPath::Name(Cow::Borrowed("cc")), KeyPath::Index(0)];
        assert!(delete_by_keypath(doc.as_slice(), p.iter(), &mut buf).is_ok());
        let e = It::from_parts(T_CONTAINER, layout_array(&[inner[1]]).as_slice());
        assert!(appended(&buf, &layout_object(&k, &[v[0], e, v[2]])));
    } else {
        let p = [KeyPath::Index(0)];
        assert!(delete_by_keypath(doc.as_slice(), p.iter(), &mut buf).is_ok());
        assert!(appended(&buf, &doc));
    }
}
