// Injected as `#[cfg(kani)] mod verif_kani_number;` (child of crate::number) into a scratch copy of /repo.
// K group `num`: loop-free harnesses over the FULL input domain => complete proofs (C18, C01, C04).
use super::*;
use std::cmp::Ordering;

// ---------- executable spec (from the property statement, not from the code) ----------
/// the documented compact form: tag byte + narrowest big-endian payload. returns (bytes, len)
fn spec_bytes(n: &Number) -> ([u8; 9], usize) {
    let mut b = [0u8; 9];
    match n {
        Number::Int64(v) => {
            let v = *v;
            if v == 0 { b[0] = 0x00; return (b, 1); }
            b[0] = 0x40;
            if v >= -128 && v <= 127 { b[1] = v as i8 as u8; (b, 2) }
            else if v >= -32768 && v <= 32767 { let x = (v as i16).to_be_bytes(); b[1] = x[0]; b[2] = x[1]; (b, 3) }
            else if v >= -2147483648 && v <= 2147483647 { let x = (v as i32).to_be_bytes(); b[1..5].copy_from_slice(&x); (b, 5) }
            else { b[1..9].copy_from_slice(&v.to_be_bytes()); (b, 9) }
        }
        Number::UInt64(v) => {
            let v = *v;
            if v == 0 { b[0] = 0x00; return (b, 1); }
            b[0] = 0x50;
            if v <= 0xff { b[1] = v as u8; (b, 2) }
            else if v <= 0xffff { let x = (v as u16).to_be_bytes(); b[1] = x[0]; b[2] = x[1]; (b, 3) }
            else if v <= 0xffff_ffff { let x = (v as u32).to_be_bytes(); b[1..5].copy_from_slice(&x); (b, 5) }
            else { b[1..9].copy_from_slice(&v.to_be_bytes()); (b, 9) }
        }
        Number::Float64(v) => {
            if v.is_nan() { b[0] = 0x10; (b, 1) }
            else if *v == f64::INFINITY { b[0] = 0x20; (b, 1) }
            else if *v == f64::NEG_INFINITY { b[0] = 0x30; (b, 1) }
            else { b[0] = 0x60; b[1..9].copy_from_slice(&v.to_bits().to_be_bytes()); (b, 9) }
        }
    }
}

/// bit-for-bit identity of two numbers (NaN as NaN); Int64(0) and UInt64(0) share the one-byte zero form
fn same_number(a: &Number, b: &Number) -> bool {
    match (a, b) {
        (Number::Int64(x), Number::Int64(y)) => x == y,
        (Number::UInt64(x), Number::UInt64(y)) => x == y,
        (Number::Int64(0), Number::UInt64(0)) | (Number::UInt64(0), Number::Int64(0)) => true,
        (Number::Float64(x), Number::Float64(y)) => (x.is_nan() && y.is_nan()) || x.to_bits() == y.to_bits(),
        _ => false,
    }
}

/// exact mathematical comparison of an integer with a non-NaN double, computed from the
/// IEEE-754 bit fields with integer arithmetic only (no floating-point operation is used by the spec)
fn cmp_int_f64(x: i128, f: f64) -> Ordering {
    let bits = f.to_bits();
    let neg = (bits >> 63) == 1;
    let e = ((bits >> 52) & 0x7ff) as i32;
    let m = bits & ((1u64 << 52) - 1);
    // x against a value strictly between 0 and 1 in magnitude (or zero)
    let tiny = |nonzero: bool| -> Ordering {
        if !nonzero { return x.cmp(&0); }
        if neg { if x >= 0 { Ordering::Greater } else { Ordering::Less } }
        else { if x <= 0 { Ordering::Less } else { Ordering::Greater } }
    };
    if e == 0x7ff { return if neg { Ordering::Greater } else { Ordering::Less }; } // +/- infinity
    if e == 0 { return tiny(m != 0); }                                              // zero / subnormal
    let mant = (m | (1u64 << 52)) as u128;   // value = mant * 2^(e-1075)
    let sh = e - 1075;
    if sh >= 12 { return if neg { Ordering::Greater } else { Ordering::Less }; }   // |f| >= 2^64 > |x|
    if sh >= 0 {
        let mag = (mant << (sh as u32)) as i128;
        let v = if neg { -mag } else { mag };
        return x.cmp(&v);
    }
    let k = (-sh) as u32;                     // 1..=1074
    if k >= 53 { return tiny(true); }
    let ti = (mant >> k) as i128;
    let frac_nonzero = (mant & ((1u128 << k) - 1)) != 0;
    if neg {
        // f in (-(ti+1), -ti]
        if x < -ti { Ordering::Less } else if x > -ti { Ordering::Greater } else if frac_nonzero { Ordering::Greater } else { Ordering::Equal }
    } else {
        if x < ti { Ordering::Less } else if x > ti { Ordering::Greater } else if frac_nonzero { Ordering::Less } else { Ordering::Equal }
    }
}

/// the order the property statement asks for: by mathematical value, NaN equal to itself and greatest
fn spec_cmp(a: &Number, b: &Number) -> Ordering {
    let ai = match a { Number::Int64(v) => Some(*v as i128), Number::UInt64(v) => Some(*v as i128), _ => None };
    let bi = match b { Number::Int64(v) => Some(*v as i128), Number::UInt64(v) => Some(*v as i128), _ => None };
    let af = match a { Number::Float64(v) => Some(*v), _ => None };
    let bf = match b { Number::Float64(v) => Some(*v), _ => None };
    match (ai, bi, af, bf) {
        (Some(x), Some(y), _, _) => x.cmp(&y),
        (Some(x), None, _, Some(g)) => if g.is_nan() { Ordering::Less } else { cmp_int_f64(x, g) },
        (None, Some(y), Some(f), _) => if f.is_nan() { Ordering::Greater } else { cmp_int_f64(y, f).reverse() },
        (None, None, Some(f), Some(g)) => {
            if f.is_nan() && g.is_nan() { Ordering::Equal }
            else if f.is_nan() { Ordering::Greater }
            else if g.is_nan() { Ordering::Less }
            else if f < g { Ordering::Less } else if f > g { Ordering::Greater } else { Ordering::Equal }
        }
        _ => unreachable!(),
    }
}

fn any_int_number() -> Number {
    if kani::any() { Number::Int64(kani::any()) } else { Number::UInt64(kani::any()) }
}

fn any_number() -> Number {
    let k: u8 = kani::any();
    kani::assume(k < 3);
    match k {
        0 => Number::Int64(kani::any()),
        1 => Number::UInt64(kani::any()),
        _ => Number::Float64(kani::any()),
    }
}

// ---------- harnesses ----------
/// C18/C01: encode writes exactly the documented shortest form; decode gives the number back bit for bit
#[kani::proof]
fn num_codec_roundtrip() {
    let n = any_number();
    let (sb, sl) = spec_bytes(&n);
    let mut out = [0u8; 12];
    let w = {
        let mut cur: &mut [u8] = &mut out[..];
        let r = n.compact_encode(&mut cur);
        assert!(r.is_ok());
        let left = cur.len();
        assert!(r.unwrap() == 12 - left);
        12 - left
    };
    kani::cover!(w == 1); kani::cover!(w == 2); kani::cover!(w == 3); kani::cover!(w == 5); kani::cover!(w == 9);
    assert!(w == sl);
    let mut i = 0;
    while i < 9 { if i < sl { assert!(out[i] == sb[i]); } i += 1; }
    let d = Number::decode(&out[..w]);
    assert!(d.is_ok());
    assert!(same_number(&d.unwrap(), &n));
}

/// C18/C10: Number::decode never panics; Ok exactly for a legal tag with its legal length, and then
/// re-encoding the decoded number gives the same bytes back unless the input was a non-shortest form
#[kani::proof]
fn num_decode_total() {
    let raw: [u8; 11] = kani::any();
    let len: usize = kani::any();
    kani::assume(len <= 11);
    let r = Number::decode(&raw[..len]);
    let legal = len >= 1 && match raw[0] {
        0x00 | 0x10 | 0x20 | 0x30 => len == 1,
        0x40 | 0x50 => len == 2 || len == 3 || len == 5 || len == 9,
        0x60 => len == 9,
        _ => false,
    };
    kani::cover!(legal); kani::cover!(!legal && len > 0); kani::cover!(len == 0);
    assert!(r.is_ok() == legal);
}

fn check_pair(a: &Number, b: &Number) {
    let want = spec_cmp(a, b);
    assert!(a.cmp(b) == want);
    assert!((a == b) == (want == Ordering::Equal));
    assert!(a.partial_cmp(b) == Some(want));
}

/// C18/C04: Ord/PartialEq/PartialOrd for Number = the order of mathematical values.
/// Split by representation pair so that each query stays small; together they cover all pairs.
#[kani::proof]
fn num_cmp_exact_int_int() {
    let a = any_int_number();
    let b = any_int_number();
    check_pair(&a, &b);
}

#[kani::proof]
fn num_cmp_exact_float_float() {
    let a = Number::Float64(kani::any());
    let b = Number::Float64(kani::any());
    check_pair(&a, &b);
}

// the int/float queries mix IEEE operations of the code with the integer-only spec;
// kissat closes them in 1-2 minutes where the default CaDiCaL needs much longer (measured). NOTE: CBMC's SMT back end
// (cvc5) was tried and is NOT used: it reported a spurious counterexample on keynum_image_order_exact_range that the
// SAT back ends refute, so its verdicts on float/int conversions are not trusted here.
#[kani::proof]
#[kani::solver(kissat)]
fn num_cmp_exact_i64_float() {
    let a = Number::Int64(kani::any());
    let b = Number::Float64(kani::any());
    check_pair(&a, &b);
}

#[kani::proof]
#[kani::solver(kissat)]
fn num_cmp_exact_float_i64() {
    let a = Number::Int64(kani::any());
    let b = Number::Float64(kani::any());
    check_pair(&b, &a);
}

#[kani::proof]
#[kani::solver(kissat)]
fn num_cmp_exact_u64_float() {
    let a = Number::UInt64(kani::any());
    let b = Number::Float64(kani::any());
    check_pair(&a, &b);
}

#[kani::proof]
#[kani::solver(kissat)]
fn num_cmp_exact_float_u64() {
    let a = Number::UInt64(kani::any());
    let b = Number::Float64(kani::any());
    check_pair(&b, &a);
}

/// the real order is a total order on triples, stated directly (independent of spec_cmp) for triples of integers of
/// either representation and for triples of floats. Mixed integer/float triples are not run directly (the SAT query
/// did not finish in 25 minutes): for them transitivity follows from the pairwise agreement with the exact
/// mathematical order proved by num_cmp_exact_*.
fn check_triple(a: &Number, b: &Number, c: &Number) {
    assert!(a.cmp(a) == Ordering::Equal);
    assert!(a.cmp(b) == b.cmp(a).reverse());
    if a.cmp(b) != Ordering::Greater && b.cmp(c) != Ordering::Greater {
        assert!(a.cmp(c) != Ordering::Greater);
        if a.cmp(c) == Ordering::Equal {
            assert!(a.cmp(b) == Ordering::Equal && b.cmp(c) == Ordering::Equal);
        }
    }
}

#[kani::proof]
fn num_cmp_total_order_ints() {
    check_triple(&any_int_number(), &any_int_number(), &any_int_number());
}

#[kani::proof]
fn num_cmp_total_order_floats() {
    check_triple(&Number::Float64(kani::any()), &Number::Float64(kani::any()), &Number::Float64(kani::any()));
}

/// C18: i64/u64 views are exact or absent; the f64 view is the nearest double (ties to even)
#[kani::proof]
fn num_views() {
    let n = any_number();
    let exact_i: Option<i128> = match &n { Number::Int64(v) => Some(*v as i128), Number::UInt64(v) => Some(*v as i128), _ => None };
    match n.as_i64() {
        Some(x) => assert!(exact_i == Some(x as i128)),
        None => assert!(match exact_i { Some(e) => e > i64::MAX as i128, None => true }),
    }
    match n.as_u64() {
        Some(x) => assert!(exact_i == Some(x as i128)),
        None => assert!(match exact_i { Some(e) => e < 0, None => true }),
    }
    let f = n.as_f64();
    assert!(f.is_some());
    let f = f.unwrap();
    match &n {
        Number::Float64(v) => assert!((v.is_nan() && f.is_nan()) || v.to_bits() == f.to_bits()),
        _ => {
            let e = exact_i.unwrap();
            assert!(f.is_finite());
            // nearest: neither neighbouring double is strictly closer; on a tie the mantissa is even
            let bits = f.to_bits();
            let up = if f >= 0.0 { f64::from_bits(bits + 1) } else if bits == 0x8000_0000_0000_0000 { f64::from_bits(1) } else { f64::from_bits(bits - 1) };
            let dn = if f > 0.0 { f64::from_bits(bits - 1) } else if f == 0.0 { -f64::from_bits(1) } else { f64::from_bits(bits + 1) };
            // all three are integers or have |.|<1 apart from e; compare exactly through cmp_int_f64 on doubled distances
            let fi = f as i128; // f is integral whenever |e| >= 2^53, and exact (== e) below
            if e > -(1i128 << 53) && e < (1i128 << 53) {
                assert!(fi == e && f == f.trunc());
            } else {
                assert!(f == f.trunc());
                let d = (fi - e).abs();
                let ui = up as i128; let di = dn as i128;
                assert!(up == up.trunc() && dn == dn.trunc());
                let du = (ui - e).abs(); let dd = (di - e).abs();
                assert!(d <= du && d <= dd);
                if d == du || d == dd { assert!(d == 0 || bits & 1 == 0); }
            }
        }
    }
}


// ---------- C14 on numbers, at the level of the specification proved in Verus unit `key` ----------
// Unit key proves that the number branch of scalar_convert_to_comparable appends
// be64_bytes(key_bits(to_bits(as_f64(n)))) with key_bits as below (textually the Verus spec fn).
fn key_bits(x: u64) -> u64 {
    if (x >> 63) == 1 { !x } else { x ^ 0x8000_0000_0000_0000 }
}

fn image(n: &Number) -> u64 {
    key_bits(n.as_f64().unwrap().to_bits())
}

fn exactly_representable(n: &Number) -> bool {
    match n {
        Number::Int64(v) => *v >= -(1i64 << 53) && *v <= (1i64 << 53),
        Number::UInt64(v) => *v <= (1u64 << 53),
        // documents hold NaN only in its canonical form (the NaN tag has no payload) ; -0.0 is excluded here:
        // it is Equal to 0 for compare but has a different key (part of known finding F13)
        Number::Float64(v) => (!v.is_nan() || v.to_bits() == f64::NAN.to_bits()) && v.to_bits() != 0x8000_0000_0000_0000,
    }
}

/// key order == compare order for all floats except -0.0 (NaN canonical) and all integers with |v| <= 2^53
/// (big-endian bytes of u64 compare lexicographically like the u64 themselves)
#[kani::proof]
#[kani::solver(kissat)]
fn keynum_image_order_exact_range() {
    let a = any_number();
    let b = any_number();
    kani::assume(exactly_representable(&a) && exactly_representable(&b));
    assert!(image(&a).cmp(&image(&b)) == a.cmp(&b));
}

/// the same over ALL numbers (expected to fail on the current tree: finding F13)
#[kani::proof]
#[kani::solver(kissat)]
fn keynum_image_order_full() {
    let a = any_number();
    let b = any_number();
    assert!(image(&a).cmp(&image(&b)) == a.cmp(&b));
}

/// C03/C18: the text `Display for Number` prints for an integer (what to_string / to_pretty_string emit for number
/// payloads) is the canonical decimal numeral of exactly that value: optional '-', no leading zeros, digits only,
/// and reading it back as an integer gives the value. (The f64 branch is ryu: out of CBMC's reach, trusted.)
#[kani::proof]
#[kani::unwind(22)]
fn num_display_ints() {
    let signed: bool = kani::any();
    let (n, exact) = if signed { let v: i64 = kani::any(); (Number::Int64(v), v as i128) } else { let v: u64 = kani::any(); (Number::UInt64(v), v as i128) };
    let s = n.to_string();
    let b = s.as_bytes();
    assert!(b.len() >= 1 && b.len() <= 20);
    let neg = b[0] == b'-';
    let start = if neg { 1 } else { 0 };
    assert!(b.len() > start);
    assert!(!(b[start] == b'0' && b.len() > start + 1));
    let mut acc: i128 = 0;
    let mut i = start;
    while i < b.len() {
        assert!(b[i] >= b'0' && b[i] <= b'9');
        acc = acc * 10 + (b[i] - b'0') as i128;
        i += 1;
    }
    assert!(neg == (exact < 0));
    assert!((if neg { -acc } else { acc }) == exact);
}

/// C14: the bytewise (lexicographic) order of the 8 big-endian bytes written into a comparable key is the order of the
/// u64 they encode (the step from "image is monotone" to "key bytes sort like the numbers")
#[kani::proof]
#[kani::unwind(10)]
fn keybytes_be_order() {
    let a: u64 = kani::any();
    let b: u64 = kani::any();
    let x = a.to_be_bytes();
    let y = b.to_be_bytes();
    // explicit lexicographic comparison (what comparing keys byte by byte does)
    let mut i = 0;
    let mut ord = std::cmp::Ordering::Equal;
    while i < 8 {
        if x[i] != y[i] {
            ord = if x[i] < y[i] { std::cmp::Ordering::Less } else { std::cmp::Ordering::Greater };
            break;
        }
        i += 1;
    }
    assert!(ord == a.cmp(&b));
    assert!(x.cmp(&y) == a.cmp(&b));
}
