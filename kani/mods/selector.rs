// Injected as `#[cfg(kani)] mod verif_kani_selector;` (child of crate::jsonpath::selector).
use super::*;

/// C08/C20 [K complete]: Selector::convert_index against its injected contract, every i32 index and every length >= 0
#[kani::proof_for_contract(Selector::convert_index)]
fn idx_convert_index() {
    let index = if kani::any() { Index::Index(kani::any()) } else { Index::LastIndex(kani::any()) };
    let length: i32 = kani::any();
    let _ = Selector::convert_index(&index, length);
}
