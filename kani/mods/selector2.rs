// Injected as `#[cfg(kani)] mod verif_kani_selector2;` (child of crate::jsonpath::selector).
// Bounded twins (level "bounded") of the Verus units for C08 / C15 / C17.  Documents are flat README layouts built from
// concrete-shape constructors (crate::verif_kani_spec): every payload width is a constant, types and bytes are symbolic.
//
// WHY THE TWINS ARE COMPOSITIONAL (measured): `Position` is an enum whose variants have different layouts; Kani/CBMC
// keep such payloads in a union and lose constant propagation through it, so inside `Selector::select` every offset and
// length read back from the position queue is symbolic for the symbolic executor (symbolic-size allocations and copies,
// every loop unwound to the bound).  `select` / `find_positions` on a 2-element array exhaust memory after > 20 min.
// Therefore:
//   * the position finders (select_by_indices / select_by_name / select_object_values / select_array_values,
//     convert_slice) are called DIRECTLY with a concrete container offset and their positions are compared with the
//     element list (which element, type, absolute payload offset, length; order follows the path);
//   * the result builders and the mode dispatch are exercised through the REAL `select` / `exists` / `predicate_match`
//     with `find_positions` stubbed by the positions the harness wants (fp_stub): appended bytes, absolute offsets,
//     prior contents, First / Array / Mixed / All consistency, predicate results;
//   * the comparison semantics of filters (literal on either side, existential over several values) through
//     `compare` / `compare_value`.
// The glue loop of `find_positions` itself and `filter_expr` over paths are NOT covered by these twins.
// All harnesses use `unwind(6)`: harness-side loops are nested loops of at most 5 iterations.
#![allow(unused_imports, dead_code, static_mut_refs)]
use super::*;
use crate::verif_kani_spec::*;

// ------------------------------------------------------------------ README layout with short loops
/// append at most 16 bytes
fn put(b: &mut Buf, s: &[u8]) {
    assert!(s.len() <= 16);
    let mut c = 0;
    while c < 4 {
        let mut j = 0;
        while j < 4 {
            let i = c * 4 + j;
            if i < s.len() {
                b.push(s[i]);
            }
            j += 1;
        }
        c += 1;
    }
}

/// header ‖ entry words ‖ payloads (the same bytes as verif_kani_spec::layout_array; see ks_lay_agrees)
fn lay_array(items: &[It]) -> Buf {
    assert!(items.len() <= 4);
    let mut b = Buf::new();
    b.push_u32(ARRAY | items.len() as u32);
    let mut i = 0;
    while i < items.len() {
        b.push_u32(items[i].word);
        i += 1;
    }
    i = 0;
    while i < items.len() {
        put(&mut b, items[i].payload());
        i += 1;
    }
    b
}

/// header ‖ key entry words ‖ value entry words ‖ key bytes ‖ value payloads
fn lay_object(keys: &[It], vals: &[It]) -> Buf {
    assert!(keys.len() <= 3 && vals.len() == keys.len());
    let mut b = Buf::new();
    b.push_u32(OBJECT | keys.len() as u32);
    let mut i = 0;
    while i < keys.len() {
        b.push_u32(keys[i].word);
        i += 1;
    }
    i = 0;
    while i < vals.len() {
        b.push_u32(vals[i].word);
        i += 1;
    }
    i = 0;
    while i < keys.len() {
        put(&mut b, keys[i].payload());
        i += 1;
    }
    i = 0;
    while i < vals.len() {
        put(&mut b, vals[i].payload());
        i += 1;
    }
    b
}

/// a document of at most 16 bytes as a CONTAINER element
fn cont(d: &Buf) -> It {
    assert!(d.n <= 16);
    let mut pay = [0u8; PAYMAX];
    let mut c = 0;
    while c < 4 {
        let mut j = 0;
        while j < 4 {
            let i = c * 4 + j;
            if i < d.n {
                pay[i] = d.b[i];
            }
            j += 1;
        }
        c += 1;
    }
    It { word: T_CONTAINER | d.n as u32, pay, plen: d.n }
}

/// Float64 element (payload width 9) with symbolic mantissa/exponent bytes
fn f9() -> It {
    let mut pay = [0u8; PAYMAX];
    pay[0] = 0x60;
    pay[1] = kani::any();
    pay[2] = kani::any();
    pay[8] = kani::any();
    It { word: T_NUMBER | 9, pay, plen: 9 }
}

/// the stand-alone document of an element: containers verbatim, scalars under a scalar header
fn doc_of(it: &It) -> Buf {
    let mut b = Buf::new();
    if it.ty() != T_CONTAINER {
        b.push_u32(SCALAR);
        b.push_u32(it.word);
    }
    put(&mut b, it.payload());
    b
}

/// data[pos .. pos + d.n] == d
fn eq_at(d: &Buf, data: &[u8], pos: usize) -> bool {
    if pos + d.n > data.len() {
        return false;
    }
    let mut ok = true;
    let mut a = 0;
    while a < 3 {
        let mut c = 0;
        while c < 4 {
            let mut j = 0;
            while j < 4 {
                let i = a * 16 + c * 4 + j;
                if i < d.n && d.b[i] != data[pos + i] {
                    ok = false;
                }
                j += 1;
            }
            c += 1;
        }
        a += 1;
    }
    ok
}

/// payload offsets of the elements of an array document that starts at `base`
fn array_offsets(base: usize, a: &[It]) -> [usize; 4] {
    let mut o = [0usize; 4];
    let mut pos = base + 4 + 4 * a.len();
    let mut i = 0;
    while i < a.len() {
        o[i] = pos;
        pos += a[i].plen;
        i += 1;
    }
    o
}

/// the short-loop layout functions produce the same bytes as the shared README layout spec
#[kani::proof]
#[kani::unwind(50)]
fn ks_lay_agrees() {
    let k = [key1(), key2(), key2()];
    let v = [sc_w2().it, sc_w0().it, sc_str1().it];
    assert!(lay_object(&k, &v).eq_slice(layout_object(&k, &v).as_slice()));
    let inner = lay_array(&[v[2], v[1]]);
    assert!(cont(&inner).same(&it_array(&[v[2], v[1]])));
    let a = [v[0], cont(&inner), f9(), v[1]];
    assert!(lay_array(&a).eq_slice(layout_array(&a).as_slice()));
    assert!(doc_of(&a[0]).eq_slice(a[0].doc().as_slice()));
    assert!(doc_of(&a[1]).eq_slice(a[1].doc().as_slice()));
    assert!(doc_of(&a[2]).eq_slice(a[2].doc().as_slice()));
}

// ------------------------------------------------------------------ positions
fn selector0() -> Selector<'static> {
    Selector::new(JsonPath { paths: vec![] }, Mode::All)
}

/// the next position is element `it` whose payload starts at absolute offset `off`
fn expect_pos(q: &mut VecDeque<Position>, it: &It, off: usize) {
    match q.pop_front() {
        Some(Position::Scalar((ty, o, l))) => {
            assert!(it.ty() != T_CONTAINER);
            assert!(ty == it.ty() && o == off && l == it.plen);
        }
        Some(Position::Container((o, l))) => {
            assert!(it.ty() == T_CONTAINER);
            assert!(o == off && l == it.plen);
        }
        None => { assert!(false); }
    }
}

fn any_index(lo: i32, hi: i32) -> (Index, bool, i32) {
    let is_last: bool = kani::any();
    let v: i32 = kani::any();
    kani::assume(v >= lo && v <= hi);
    (if is_last { Index::LastIndex(v) } else { Index::Index(v) }, is_last, v)
}

fn resolve(is_last: bool, v: i32, len: i64) -> i64 {
    if is_last { len - 1 + v as i64 } else { v as i64 }
}

/// C08 `$[2 to 2, 0 to 0, 2 to last]` on [w2, null|bool, str1] (widths 2,0,1): the positions are the elements 2, 0, 2 in
/// PATH order (descending and repeated selections, one-element ranges), each with its type, absolute payload offset and
/// length.  (Ranges are used because three plain indices in one step take CBMC > 10 min; the plain index conversion is
/// covered by ks_pick_index_sym and by the complete harness idx_convert_index.)
#[kani::proof]
#[kani::unwind(6)]
fn ks_pick_desc_rep() {
    let a = [sc_w2().it, sc_w0().it, sc_str1().it];
    let doc = lay_array(&a);
    let offs = array_offsets(0, &a);
    let ix = vec![
        ArrayIndex::Slice((Index::Index(2), Index::Index(2))),
        ArrayIndex::Slice((Index::Index(0), Index::Index(0))),
        ArrayIndex::Slice((Index::Index(2), Index::LastIndex(0))),
    ];
    let sel = selector0();
    let mut q = VecDeque::new();
    assert!(sel.select_by_indices(doc.as_slice(), 0, &ix, &mut q).is_ok());
    assert!(q.len() == 3);
    expect_pos(&mut q, &a[2], offs[2]);
    expect_pos(&mut q, &a[0], offs[0]);
    expect_pos(&mut q, &a[2], offs[2]);
}

/// C08 `$[3 to 5, last-1 to last]` on [str1, float, null|bool] (widths 1,9,0): an out-of-range range is dropped, a range
/// touching the end selects the elements 1, 2
#[kani::proof]
#[kani::unwind(6)]
fn ks_pick_slice() {
    let a = [sc_str1().it, f9(), sc_w0().it];
    let doc = lay_array(&a);
    let offs = array_offsets(0, &a);
    let ix = vec![
        ArrayIndex::Slice((Index::Index(3), Index::Index(5))),
        ArrayIndex::Slice((Index::LastIndex(-1), Index::LastIndex(0))),
    ];
    let sel = selector0();
    let mut q = VecDeque::new();
    assert!(sel.select_by_indices(doc.as_slice(), 0, &ix, &mut q).is_ok());
    assert!(q.len() == 2);
    expect_pos(&mut q, &a[1], offs[1]);
    expect_pos(&mut q, &a[2], offs[2]);
}

/// C08 `$[i]` / `$[last + k]` with a symbolic i, k in -4..=4 on [null|bool, w2, str1]: exactly the element with that
/// index, or nothing when it is out of range
#[kani::proof]
#[kani::unwind(6)]
fn ks_pick_index_sym() {
    let a = [sc_w0().it, sc_w2().it, sc_str1().it];
    let doc = lay_array(&a);
    let offs = array_offsets(0, &a);
    let (idx, is_last, v) = any_index(-4, 4);
    let want = resolve(is_last, v, 3);
    let ix = vec![ArrayIndex::Index(idx)];
    let sel = selector0();
    let mut q = VecDeque::new();
    assert!(sel.select_by_indices(doc.as_slice(), 0, &ix, &mut q).is_ok());
    if want < 0 || want > 2 {
        assert!(q.len() == 0);
    } else {
        assert!(q.len() == 1);
        if want == 0 {
            expect_pos(&mut q, &a[0], offs[0]);
        } else if want == 1 {
            expect_pos(&mut q, &a[1], offs[1]);
        } else {
            expect_pos(&mut q, &a[2], offs[2]);
        }
    }
}

/// C08 convert_slice(start, end, len) for start, end each `n` or `last + n` (n in -4..=4) and len in 1..=4: the
/// ascending list of every i with start <= i <= end and 0 <= i < len, or None when that list is empty
#[kani::proof]
#[kani::unwind(6)]
fn ks_convert_slice() {
    let (s, sl, sv) = any_index(-4, 4);
    let (e, el, ev) = any_index(-4, 4);
    let len: i32 = kani::any();
    kani::assume(len >= 1 && len <= 4);
    let lo = resolve(sl, sv, len as i64);
    let hi = resolve(el, ev, len as i64);
    let r = Selector::convert_slice(&s, &e, len);
    let mut want = [0usize; 4];
    let mut n = 0;
    let mut i = 0;
    while i < 4 {
        if (i as i64) < len as i64 && lo <= i as i64 && i as i64 <= hi {
            want[n] = i;
            n += 1;
        }
        i += 1;
    }
    match r {
        None => assert!(n == 0),
        Some(v) => {
            assert!(n > 0 && v.len() == n);
            i = 0;
            while i < 4 {
                if i < n {
                    assert!(v[i] == want[i]);
                }
                i += 1;
            }
        }
    }
}

/// C08 an array that does not start at offset 0: `[1 to 1, 0 to 0]` inside [w2, [str1, null|bool]]: absolute offsets
#[kani::proof]
#[kani::unwind(6)]
fn ks_pick_nested() {
    let e = [sc_str1().it, sc_w0().it];
    let inner = lay_array(&e);
    let a = [sc_w2().it, cont(&inner)];
    let doc = lay_array(&a);
    let base = array_offsets(0, &a)[1];
    let offs = array_offsets(base, &e);
    let ix = vec![
        ArrayIndex::Slice((Index::Index(1), Index::Index(1))),
        ArrayIndex::Slice((Index::Index(0), Index::Index(0))),
    ];
    let sel = selector0();
    let mut q = VecDeque::new();
    assert!(sel.select_by_indices(doc.as_slice(), base, &ix, &mut q).is_ok());
    assert!(q.len() == 2);
    expect_pos(&mut q, &e[1], offs[1]);
    expect_pos(&mut q, &e[0], offs[0]);
}

fn name_of(k: &It) -> &str {
    // keys are ASCII by construction
    unsafe { std::str::from_utf8_unchecked(k.payload()) }
}

fn key_eq(a: &It, b: &It) -> bool {
    a.plen == b.plen && (a.plen < 1 || a.pay[0] == b.pay[0]) && (a.plen < 2 || a.pay[1] == b.pay[1])
}

fn obj3() -> ([It; 3], [It; 3], Buf, [usize; 3]) {
    let k = [key1(), key2(), key2()];
    kani::assume(key_lt(&k[0], &k[1]) && key_lt(&k[1], &k[2]));
    let v = [sc_w2().it, sc_w0().it, sc_str1().it];
    let doc = lay_object(&k, &v);
    // header, 6 entry words, 5 key bytes, then the values
    let o0 = 4 + 24 + 5;
    (k, v, doc, [o0, o0 + 2, o0 + 2])
}

fn body_pick_name(name_it: It) {
    let (k, v, doc, offs) = obj3();
    let sel = selector0();
    let mut q = VecDeque::new();
    assert!(sel.select_by_name(doc.as_slice(), 0, name_of(&name_it), &mut q).is_ok());
    if key_eq(&k[0], &name_it) {
        assert!(q.len() == 1);
        expect_pos(&mut q, &v[0], offs[0]);
    } else if key_eq(&k[1], &name_it) {
        assert!(q.len() == 1);
        expect_pos(&mut q, &v[1], offs[1]);
    } else if key_eq(&k[2], &name_it) {
        assert!(q.len() == 1);
        expect_pos(&mut q, &v[2], offs[2]);
    } else {
        assert!(q.len() == 0);
    }
}

/// C08 `.name` on {k1: w2, k2: null|bool, k2': str1} (key widths 1,2,2, sorted distinct keys), 2-byte name: the member
/// with exactly that key (two keys share the name's length), or nothing
#[kani::proof]
#[kani::unwind(6)]
fn ks_pick_name_w2() {
    body_pick_name(key2());
}

/// the same with a 1-byte name
#[kani::proof]
#[kani::unwind(6)]
fn ks_pick_name_w1() {
    body_pick_name(key1());
}

/// C08 `.*` on the same objects: every member value in stored order; on an array: nothing
#[kani::proof]
#[kani::unwind(6)]
fn ks_pick_dot_wildcard() {
    let (_k, v, doc, offs) = obj3();
    let sel = selector0();
    let mut q = VecDeque::new();
    assert!(sel.select_object_values(doc.as_slice(), 0, &mut q).is_ok());
    assert!(q.len() == 3);
    expect_pos(&mut q, &v[0], offs[0]);
    expect_pos(&mut q, &v[1], offs[1]);
    expect_pos(&mut q, &v[2], offs[2]);
    let adoc = lay_array(&v);
    assert!(sel.select_object_values(adoc.as_slice(), 0, &mut q).is_ok());
    assert!(q.len() == 0);
}

/// C08 `[*]` on [float, null|bool, [str1]]: every element in order (a nested container among them)
#[kani::proof]
#[kani::unwind(6)]
fn ks_pick_bracket_wildcard() {
    let inner = lay_array(&[sc_str1().it]);
    let a = [f9(), sc_w0().it, cont(&inner)];
    let doc = lay_array(&a);
    let offs = array_offsets(0, &a);
    let sel = selector0();
    let mut q = VecDeque::new();
    assert!(sel.select_array_values(doc.as_slice(), 0, doc.n, &mut q).is_ok());
    assert!(q.len() == 3);
    expect_pos(&mut q, &a[0], offs[0]);
    expect_pos(&mut q, &a[1], offs[1]);
    expect_pos(&mut q, &a[2], offs[2]);
}

/// C08 `[*]` on an object and on a scalar document: the value itself (lax mode)
#[kani::proof]
#[kani::unwind(6)]
fn ks_pick_bracket_lax() {
    let sel = selector0();
    let mut q = VecDeque::new();
    let odoc = lay_object(&[key1()], &[sc_w0().it]);
    assert!(sel.select_array_values(odoc.as_slice(), 0, odoc.n, &mut q).is_ok());
    assert!(q.len() == 1);
    match q.pop_front() {
        Some(Position::Container((o, l))) => assert!(o == 0 && l == odoc.n),
        _ => { assert!(false); }
    }
    let sdoc = layout_scalar(&sc_str2().it);
    assert!(sel.select_array_values(sdoc.as_slice(), 0, sdoc.n, &mut q).is_ok());
    assert!(q.len() == 1);
    match q.pop_front() {
        Some(Position::Container((o, l))) => assert!(o == 0 && l == sdoc.n),
        _ => { assert!(false); }
    }
}

// ------------------------------------------------------------------ result building through the real `select`
// positions handed to `select` by the find_positions stub: (is_scalar, type, offset, length)
static mut FP: [(bool, u32, usize, usize); 3] = [(false, 0, 0, 0); 3];
static mut FPN: usize = 0;

fn fp_stub<'a>(
    _this: &'a Selector<'a>,
    _root: &'a [u8],
    _current: Option<&Position>,
    _paths: &[Path<'a>],
) -> Result<VecDeque<Position>, Error>
where
    'a: 'a, // makes 'a early-bound, like the lifetime parameter of `impl<'a> Selector<'a>`
{
    let mut q = VecDeque::new();
    let mut i = 0;
    while i < 3 {
        unsafe {
            if i < FPN {
                let (s, ty, o, l) = FP[i];
                q.push_back(if s { Position::Scalar((ty, o, l)) } else { Position::Container((o, l)) });
            }
        }
        i += 1;
    }
    Ok(q)
}

fn set_positions(items: &[It], offs: &[usize]) {
    assert!(items.len() <= 3 && offs.len() == items.len());
    unsafe {
        FPN = items.len();
        let mut i = 0;
        while i < items.len() {
            FP[i] = (items[i].ty() != T_CONTAINER, items[i].ty(), offs[i], items[i].plen);
            i += 1;
        }
    }
}

const NPRE: usize = 3; // bytes already in `data` before the call: 0xAA, a symbolic byte, 0x55; `offsets` already holds [3]

struct Out {
    data: Vec<u8>,
    offsets: Vec<u64>,
    pre: u8,
}

fn plain_path() -> JsonPath<'static> {
    JsonPath { paths: vec![Path::Root, Path::BracketWildcard] }
}

fn run_select(path: JsonPath<'_>, mode: Mode, root: &[u8]) -> Out {
    let pre: u8 = kani::any();
    let sel = Selector::new(path, mode);
    // the caller's buffers have spare capacity (no reallocation while the result is appended)
    let mut data: Vec<u8> = Vec::with_capacity(64);
    data.push(0xAA);
    data.push(pre);
    data.push(0x55);
    let mut offsets: Vec<u64> = Vec::with_capacity(8);
    offsets.push(NPRE as u64);
    let r = sel.select(root, &mut data, &mut offsets);
    assert!(r.is_ok());
    // the recursive drop glue of Path / Expr is very expensive to execute symbolically and irrelevant here
    std::mem::forget(sel);
    Out { data, offsets, pre }
}

fn prior_untouched(o: &Out) {
    assert!(o.data.len() >= NPRE && o.data[0] == 0xAA && o.data[1] == o.pre && o.data[2] == 0x55);
    assert!(o.offsets.len() >= 1 && o.offsets[0] == NPRE as u64);
}

/// Mode::All shape: appended data == concatenation of the items' stand-alone documents in order; one offset per item
/// == the ABSOLUTE end position of that item in `data`; prior contents untouched
fn check_items(o: &Out, w: &[It]) {
    assert!(w.len() <= 3);
    prior_untouched(o);
    assert!(o.offsets.len() == 1 + w.len());
    let mut pos = NPRE;
    let mut k = 0;
    while k < w.len() {
        let d = doc_of(&w[k]);
        assert!(o.offsets[k + 1] == (pos + d.n) as u64);
        assert!(eq_at(&d, &o.data, pos));
        pos += d.n;
        k += 1;
    }
    assert!(o.data.len() == pos);
}

/// Mode::Array shape: appended data == README array of the items; exactly one new offset == data.len()
fn check_array(o: &Out, w: &[It]) {
    prior_untouched(o);
    let d = lay_array(w);
    assert!(o.offsets.len() == 2);
    assert!(o.data.len() == NPRE + d.n);
    assert!(o.offsets[1] == (NPRE + d.n) as u64);
    assert!(eq_at(&d, &o.data, NPRE));
}

/// C15/C17 no result: All, First and Mixed append nothing; Array appends the empty array and one offset; exists is false
#[kani::proof]
#[kani::unwind(6)]
#[kani::stub(Selector::find_positions, fp_stub)]
fn ks_modes_0() {
    let a = [sc_w0().it, sc_str2().it];
    let doc = lay_array(&a);
    set_positions(&[], &[]);
    check_items(&run_select(plain_path(), Mode::All, doc.as_slice()), &[]);
    check_items(&run_select(plain_path(), Mode::First, doc.as_slice()), &[]);
    check_items(&run_select(plain_path(), Mode::Mixed, doc.as_slice()), &[]);
    check_array(&run_select(plain_path(), Mode::Array, doc.as_slice()), &[]);
    let sel = Selector::new(plain_path(), Mode::Mixed);
    assert!(sel.exists(doc.as_slice()) == Ok(false));
    std::mem::forget(sel);
}

/// C15/C17 one PAYLOAD-LESS result (null|true|false, element 0 of [w0, str2]): All, First and Mixed append its
/// scalar document and one offset; exists is true
#[kani::proof]
#[kani::unwind(6)]
#[kani::stub(Selector::find_positions, fp_stub)]
fn ks_modes_1() {
    let a = [sc_w0().it, sc_str2().it];
    let doc = lay_array(&a);
    let offs = array_offsets(0, &a);
    set_positions(&[a[0]], &[offs[0]]);
    let m: u8 = kani::any();
    kani::assume(m < 3);
    let mode = if m == 0 { Mode::All } else if m == 1 { Mode::First } else { Mode::Mixed };
    check_items(&run_select(plain_path(), mode, doc.as_slice()), &[a[0]]);
    let sel = Selector::new(plain_path(), Mode::Mixed);
    assert!(sel.exists(doc.as_slice()) == Ok(true));
    std::mem::forget(sel);
}

/// C15/C17 one result, Mode::Array: a one-element array
#[kani::proof]
#[kani::unwind(6)]
#[kani::stub(Selector::find_positions, fp_stub)]
fn ks_modes_1_array() {
    let a = [sc_w0().it, sc_str2().it];
    let doc = lay_array(&a);
    let offs = array_offsets(0, &a);
    set_positions(&[a[1]], &[offs[1]]);
    check_array(&run_select(plain_path(), Mode::Array, doc.as_slice()), &[a[1]]);
}

/// C15/C17 two results (a payload-less item, then a 2-byte item), Mode::All: both documents, offsets are running
/// ABSOLUTE end positions
#[kani::proof]
#[kani::unwind(6)]
#[kani::stub(Selector::find_positions, fp_stub)]
fn ks_modes_2_all() {
    let a = [sc_w0().it, sc_str2().it];
    let doc = lay_array(&a);
    let offs = array_offsets(0, &a);
    set_positions(&[a[0], a[1]], &[offs[0], offs[1]]);
    check_items(&run_select(plain_path(), Mode::All, doc.as_slice()), &[a[0], a[1]]);
}

/// C15/C17 two results, Mode::First: the first item of the All result only
#[kani::proof]
#[kani::unwind(6)]
#[kani::stub(Selector::find_positions, fp_stub)]
fn ks_modes_2_first() {
    let a = [sc_w2().it, sc_w0().it];
    let doc = lay_array(&a);
    let offs = array_offsets(0, &a);
    set_positions(&[a[0], a[1]], &[offs[0], offs[1]]);
    check_items(&run_select(plain_path(), Mode::First, doc.as_slice()), &[a[0]]);
}

/// C15/C17 two results, Mode::Array and Mode::Mixed: the README array [item0, item1] and exactly one offset
#[kani::proof]
#[kani::unwind(10)]
#[kani::stub(Selector::find_positions, fp_stub)]
fn ks_modes_2_array_mixed() {
    let a = [sc_w0().it, sc_w2().it];
    let doc = lay_array(&a);
    let offs = array_offsets(0, &a);
    set_positions(&[a[0], a[1]], &[offs[0], offs[1]]);
    let mode = if kani::any() { Mode::Array } else { Mode::Mixed };
    check_array(&run_select(plain_path(), mode, doc.as_slice()), &[a[0], a[1]]);
}

/// C15 results in path order that is not document order, a nested container and a 9-byte item:
/// [float, [null|bool], str1] selected as (1, 0), Mode::All
#[kani::proof]
#[kani::unwind(6)]
#[kani::stub(Selector::find_positions, fp_stub)]
fn ks_build_values_wide() {
    let inner = lay_array(&[sc_w0().it]);
    let a = [f9(), cont(&inner), sc_str1().it];
    let doc = lay_array(&a);
    let offs = array_offsets(0, &a);
    set_positions(&[a[1], a[0]], &[offs[1], offs[0]]);
    check_items(&run_select(plain_path(), Mode::All, doc.as_slice()), &[a[1], a[0]]);
}

/// C15 the same selection as an array (Mode::Array): entry words and payloads of a container and a 9-byte item
#[kani::proof]
#[kani::unwind(10)]
#[kani::stub(Selector::find_positions, fp_stub)]
fn ks_build_array_wide() {
    let inner = lay_array(&[sc_w0().it]);
    let a = [f9(), cont(&inner), sc_str1().it];
    let doc = lay_array(&a);
    let offs = array_offsets(0, &a);
    set_positions(&[a[1], a[0]], &[offs[1], offs[0]]);
    check_array(&run_select(plain_path(), Mode::Array, doc.as_slice()), &[a[1], a[0]]);
}

// ------------------------------------------------------------------ predicate paths
/// a predicate path (`find_positions` is stubbed, so only the shape `[Predicate(..)]` matters)
fn pred_path() -> JsonPath<'static> {
    JsonPath { paths: vec![Path::Predicate(Box::new(Expr::Value(Box::new(PathValue::Boolean(true)))))] }
}

fn set_pred(holds: bool, doc: &Buf) {
    if holds {
        unsafe {
            FPN = 1;
            FP[0] = (false, 0, 0, doc.n);
        }
    } else {
        set_positions(&[], &[]);
    }
}

/// C17 predicate path: whatever the mode (symbolic), `select` appends exactly the boolean scalar document (true iff
/// the predicate kept the root) and exactly one offset.  One harness per outcome: a symbolic outcome gives the position
/// queue a symbolic length and CBMC then unrolls every builder loop to the bound (> 10 min).
fn body_predicate_select(holds: bool) {
    let doc = lay_object(&[key1()], &[sc_w0().it]);
    set_pred(holds, &doc);
    let m: u8 = kani::any();
    kani::assume(m < 4);
    let mode = if m == 0 { Mode::All } else if m == 1 { Mode::First } else if m == 2 { Mode::Array } else { Mode::Mixed };
    let o = run_select(pred_path(), mode, doc.as_slice());
    let b = It { word: if holds { T_TRUE } else { T_FALSE }, pay: [0u8; PAYMAX], plen: 0 };
    check_items(&o, &[b]);
}

#[kani::proof]
#[kani::unwind(6)]
#[kani::stub(Selector::find_positions, fp_stub)]
fn ks_predicate_select_true() {
    body_predicate_select(true);
}

#[kani::proof]
#[kani::unwind(6)]
#[kani::stub(Selector::find_positions, fp_stub)]
fn ks_predicate_select_false() {
    body_predicate_select(false);
}

/// C17 `predicate_match` returns the predicate's boolean; `exists` on a predicate path is true; `predicate_match` on a
/// non-predicate path is an error
#[kani::proof]
#[kani::unwind(6)]
#[kani::stub(Selector::find_positions, fp_stub)]
fn ks_predicate_match() {
    let doc = lay_object(&[key1()], &[sc_w0().it]);
    let holds: bool = kani::any();
    set_pred(holds, &doc);
    let sel = Selector::new(pred_path(), Mode::First);
    assert!(sel.predicate_match(doc.as_slice()) == Ok(holds));
    assert!(sel.exists(doc.as_slice()) == Ok(true));
    std::mem::forget(sel);
    let plain = Selector::new(plain_path(), Mode::First);
    assert!(plain.predicate_match(doc.as_slice()).is_err());
    std::mem::forget(plain);
}

// ------------------------------------------------------------------ filter comparison semantics
fn num(v: i8, unsigned: bool) -> PathValue<'static> {
    if unsigned && v >= 0 { PathValue::Number(Number::UInt64(v as u64)) } else { PathValue::Number(Number::Int64(v as i64)) }
}

fn any_cmp_op() -> (BinaryOperator, u8) {
    let k: u8 = kani::any();
    kani::assume(k < 6);
    (
        match k {
            0 => BinaryOperator::Eq,
            1 => BinaryOperator::NotEq,
            2 => BinaryOperator::Lt,
            3 => BinaryOperator::Lte,
            4 => BinaryOperator::Gt,
            _ => BinaryOperator::Gte,
        },
        k,
    )
}

fn op_holds(k: u8, l: i8, r: i8) -> bool {
    match k {
        0 => l == r,
        1 => l != r,
        2 => l < r,
        3 => l <= r,
        4 => l > r,
        _ => l >= r,
    }
}

/// C08 `literal op value` and `value op literal` on small integers (Int64 / UInt64 encodings mixed): the operator is
/// applied with the operands in the WRITTEN order (a literal on the left is not swapped); booleans (false < true) and
/// null likewise
#[kani::proof]
#[kani::unwind(6)]
fn ks_compare_value() {
    let sel = selector0();
    let l: i8 = kani::any();
    let r: i8 = kani::any();
    kani::assume(l >= -3 && l <= 3 && r >= -3 && r <= 3);
    let (op, k) = any_cmp_op();
    assert!(sel.compare_value(&op, num(l, kani::any()), num(r, kani::any())) == op_holds(k, l, r));
    let t: bool = kani::any();
    let u: bool = kani::any();
    assert!(sel.compare_value(&op, PathValue::Boolean(t), PathValue::Boolean(u)) == op_holds(k, t as i8, u as i8));
    assert!(sel.compare_value(&op, PathValue::Null, PathValue::Null) == op_holds(k, 0, 0));
}

/// C08 existential comparison over the values a path produced: `lit op @.path` holds iff it holds for SOME value
/// (literal on the left), `@.path op lit` likewise (literal on the right); no value: false.
/// (Values of DIFFERENT kinds are deliberately absent: the current code orders them by kind, Null < Boolean < Number <
/// String, through the derived PartialOrd of PathValue, e.g. `1 > true` holds.)
#[kani::proof]
#[kani::unwind(6)]
fn ks_compare_exists() {
    let sel = selector0();
    let c: i8 = kani::any();
    let x: i8 = kani::any();
    let y: i8 = kani::any();
    kani::assume(c >= -2 && c <= 2 && x >= -2 && x <= 2 && y >= -2 && y <= 2);
    let (op, k) = any_cmp_op();
    let lit = ExprValue::Value(Box::new(num(c, false)));
    let vals = ExprValue::Values(vec![num(x, false), num(y, true)]);
    assert!(sel.compare(&op, &lit, &vals) == (op_holds(k, c, x) || op_holds(k, c, y)));
    assert!(sel.compare(&op, &vals, &lit) == (op_holds(k, x, c) || op_holds(k, y, c)));
    let none = ExprValue::Values(vec![]);
    assert!(!sel.compare(&op, &lit, &none));
    assert!(!sel.compare(&op, &none, &lit));
}

fn predicate_path() -> JsonPath<'static> {
    JsonPath { paths: vec![Path::Predicate(Box::new(Expr::Value(Box::new(PathValue::Null))))] }
}

/// C15 stand-alone predicate: in EVERY mode `select` appends exactly the boolean scalar document (true iff the
/// evaluation found something) and exactly one offset == data.len(); prior bytes untouched; exists is true
fn check_predicate(n: usize, mode: Mode) {
    let a = [sc_w0().it, sc_str2().it];
    let doc = lay_array(&a);
    let offs = array_offsets(0, &a);
    if n == 0 { set_positions(&[], &[]); } else { set_positions(&[a[1]], &[offs[1]]); }
    let o = run_select(predicate_path(), mode, doc.as_slice());
    prior_untouched(&o);
    assert!(o.offsets.len() == 2);
    assert!(o.data.len() == NPRE + 8);
    assert!(o.offsets[1] == (NPRE + 8) as u64);
    let w = if n == 0 { [0x20u8, 0, 0, 0, 0x30, 0, 0, 0] } else { [0x20u8, 0, 0, 0, 0x40, 0, 0, 0] };
    let mut k = 0;
    while k < 8 {
        assert!(o.data[NPRE + k] == w[k]);
        k += 1;
    }
}

#[kani::proof]
#[kani::unwind(10)]
#[kani::stub(Selector::find_positions, fp_stub)]
fn ks_predicate_modes() {
    // concrete mode/count combinations (a symbolic mode makes CBMC explore the drop glue of the boxed predicate expression
    // on every path: no result in 10 minutes)
    check_predicate(1, Mode::Array);
    check_predicate(0, Mode::Mixed);
}

#[kani::proof]
#[kani::unwind(10)]
#[kani::stub(Selector::find_positions, fp_stub)]
fn ks_predicate_modes2() {
    check_predicate(1, Mode::All);
    check_predicate(1, Mode::First);
    check_predicate(1, Mode::Mixed);
    check_predicate(0, Mode::Array);
    check_predicate(0, Mode::All);
    check_predicate(0, Mode::First);
}
