// Injected as `#[cfg(kani)] mod verif_kani_selector2;` (child of crate::jsonpath::selector).
// Bounded twins (level "bounded") of the Verus units for C08 / C15 / C17: the REAL Selector is run on flat documents
// built by the README layout spec (crate::verif_kani_spec) from concrete-shape constructors (every payload width is a
// constant, so every offset is a constant for CBMC; types and bytes are symbolic).  JsonPath values are built by hand.
// Every `select` appends to NON-EMPTY `data` / `offsets` buffers; the expected result is computed on the element list.
#![allow(unused_imports, dead_code)]
use super::*;
use crate::verif_kani_spec::*;

const NPRE: usize = 3; // bytes already in `data` before the call: 0xAA, a symbolic byte, 0x55; `offsets` already holds [3]
const MAXR: usize = 4; // capacity of an expected-result list

struct Out {
    data: Vec<u8>,
    offsets: Vec<u64>,
    pre: u8,
}

fn run_select(path: JsonPath<'_>, mode: Mode, root: &[u8]) -> Out {
    let pre: u8 = kani::any();
    let sel = Selector::new(path, mode);
    let mut data: Vec<u8> = vec![0xAA, pre, 0x55];
    let mut offsets: Vec<u64> = vec![NPRE as u64];
    let r = sel.select(root, &mut data, &mut offsets);
    assert!(r.is_ok());
    Out { data, offsets, pre }
}

fn run_exists(path: JsonPath<'_>, root: &[u8]) -> bool {
    let sel = Selector::new(path, Mode::Mixed);
    let r = sel.exists(root);
    assert!(r.is_ok());
    r.unwrap()
}

fn prior_untouched(o: &Out) {
    assert!(o.data.len() >= NPRE && o.data[0] == 0xAA && o.data[1] == o.pre && o.data[2] == 0x55);
    assert!(o.offsets.len() >= 1 && o.offsets[0] == NPRE as u64);
}

/// an expected result list: want[..n]
#[derive(Clone, Copy)]
struct Want {
    it: [It; MAXR],
    n: usize,
}

impl Want {
    fn new(fill: It) -> Want {
        Want { it: [fill; MAXR], n: 0 }
    }
    fn push(&mut self, x: It) {
        assert!(self.n < MAXR);
        self.it[self.n] = x;
        self.n += 1;
    }
}

/// Mode::All (and First / Mixed with < 2 items): appended data == concatenation of the items' stand-alone documents in
/// order; one offset per item == the absolute end position of that item in `data`; prior contents untouched
fn check_items(o: &Out, w: &Want) {
    prior_untouched(o);
    assert!(o.offsets.len() == 1 + w.n);
    let mut pos = NPRE;
    let mut k = 0;
    while k < w.n {
        let d = w.it[k].doc();
        let end = pos + d.n;
        assert!(o.offsets[k + 1] == end as u64);
        assert!(end <= o.data.len());
        assert!(d.eq_slice(&o.data[pos..end]));
        pos = end;
        k += 1;
    }
    assert!(o.data.len() == pos);
}

/// Mode::Array (and Mixed with >= 2 items): appended data == README array of the items; exactly one offset == data.len()
fn check_array(o: &Out, w: &Want) {
    prior_untouched(o);
    let d = layout_array(&w.it[..w.n]);
    assert!(o.offsets.len() == 2);
    assert!(o.data.len() == NPRE + d.n);
    assert!(o.offsets[1] == (NPRE + d.n) as u64);
    assert!(d.eq_slice(&o.data[NPRE..]));
}

fn check_first(o: &Out, w: &Want) {
    let mut f = *w;
    if f.n > 1 {
        f.n = 1;
    }
    check_items(o, &f);
}

fn check_mixed(o: &Out, w: &Want) {
    if w.n >= 2 {
        check_array(o, w);
    } else {
        check_items(o, w);
    }
}

/// the elements selected by `lo to hi` out of `len`: every i with lo <= i <= hi, ascending (set-comprehension form)
fn push_range(w: &mut Want, a: &[It], lo: i64, hi: i64) {
    let mut i = 0;
    while i < a.len() {
        if lo <= i as i64 && i as i64 <= hi {
            w.push(a[i]);
        }
        i += 1;
    }
}

fn any_index(lo: i32, hi: i32) -> (Index, bool, i32) {
    let is_last: bool = kani::any();
    let v: i32 = kani::any();
    kani::assume(v >= lo && v <= hi);
    (if is_last { Index::LastIndex(v) } else { Index::Index(v) }, is_last, v)
}

fn resolve(is_last: bool, v: i32, len: usize) -> i64 {
    if is_last { len as i64 - 1 + v as i64 } else { v as i64 }
}

fn root_indices(ix: Vec<ArrayIndex>) -> JsonPath<'static> {
    JsonPath { paths: vec![Path::Root, Path::ArrayIndices(ix)] }
}

// two width profiles for arrays of four scalars: payload widths 2,0,1,9 and 9,2,0,2
fn arr_a() -> [It; 4] {
    [sc_w2().it, sc_w0().it, sc_str1().it, sc_float9().it]
}
fn arr_b() -> [It; 4] {
    [sc_float9().it, sc_str2().it, sc_w0().it, sc_num2().it]
}
fn arr_c() -> [It; 3] {
    [sc_w0().it, sc_w2().it, sc_w0().it]
}

// ------------------------------------------------------------------ $[i] / $[last + k]
fn body_index1(a: &[It]) {
    let doc = layout_array(a);
    let (idx, is_last, v) = any_index(-5, 5);
    let o = run_select(root_indices(vec![ArrayIndex::Index(idx)]), Mode::All, doc.as_slice());
    let mut w = Want::new(a[0]);
    if let Some(i) = spec_convert_index(is_last, v, a.len() as i32) {
        w.push(a[i]);
    }
    check_items(&o, &w);
}

/// `$[i]`, `$[last]`, `$[last - k]`, `$[last + k]`, i,k in -5..=5, arrays of widths 2,0,1,9
#[kani::proof]
#[kani::unwind(50)]
fn ks_index1_a() {
    body_index1(&arr_a());
}

/// the same on arrays of widths 9,2,0,2
#[kani::proof]
#[kani::unwind(50)]
fn ks_index1_b() {
    body_index1(&arr_b());
}

// ------------------------------------------------------------------ $[i, j] incl. repeated, descending, out of range
fn body_index2(a: &[It]) {
    let doc = layout_array(a);
    let (i0, l0, v0) = any_index(-3, 4);
    let (i1, l1, v1) = any_index(-3, 4);
    let o = run_select(root_indices(vec![ArrayIndex::Index(i0), ArrayIndex::Index(i1)]), Mode::All, doc.as_slice());
    let mut w = Want::new(a[0]);
    if let Some(i) = spec_convert_index(l0, v0, a.len() as i32) {
        w.push(a[i]);
    }
    if let Some(i) = spec_convert_index(l1, v1, a.len() as i32) {
        w.push(a[i]);
    }
    check_items(&o, &w);
}

#[kani::proof]
#[kani::unwind(50)]
fn ks_index2_a() {
    body_index2(&arr_a());
}

#[kani::proof]
#[kani::unwind(50)]
fn ks_index2_b() {
    body_index2(&arr_b());
}

// ------------------------------------------------------------------ $[a to b]
fn body_slice(a: &[It]) {
    let doc = layout_array(a);
    let (s, sl, sv) = any_index(-4, 4);
    let (e, el, ev) = any_index(-4, 4);
    let o = run_select(root_indices(vec![ArrayIndex::Slice((s, e))]), Mode::All, doc.as_slice());
    let mut w = Want::new(a[0]);
    push_range(&mut w, a, resolve(sl, sv, a.len()), resolve(el, ev, a.len()));
    check_items(&o, &w);
}

/// `$[a to b]` with a, b each `n` or `last + n`, n in -4..=4: empty, one-element, end-touching and over-long ranges
#[kani::proof]
#[kani::unwind(50)]
fn ks_slice_a() {
    body_slice(&arr_a());
}

#[kani::proof]
#[kani::unwind(50)]
fn ks_slice_b() {
    body_slice(&arr_b());
}

/// `$[i, a to b]` and `$[a to b, i]` on three elements (widths 0,2,0): order of the items follows the path, not the array
#[kani::proof]
#[kani::unwind(50)]
fn ks_slice_mixed() {
    let a = arr_c();
    let doc = layout_array(&a);
    let (s, sl, sv) = any_index(-1, 3);
    let (e, el, ev) = any_index(-2, 2);
    let i: i32 = kani::any();
    kani::assume(i >= 0 && i <= 3);
    let first: bool = kani::any();
    let ix = if first {
        vec![ArrayIndex::Index(Index::Index(i)), ArrayIndex::Slice((s, e))]
    } else {
        vec![ArrayIndex::Slice((s, e)), ArrayIndex::Index(Index::Index(i))]
    };
    let o = run_select(root_indices(ix), Mode::All, doc.as_slice());
    let mut w = Want::new(a[0]);
    if first {
        if i < 3 {
            w.push(a[i as usize]);
        }
    }
    push_range(&mut w, &a, resolve(sl, sv, 3), resolve(el, ev, 3));
    if !first {
        if i < 3 {
            w.push(a[i as usize]);
        }
    }
    check_items(&o, &w);
}

// ------------------------------------------------------------------ $.name / $.* / $[*]
fn key_eq(a: &It, b: &It) -> bool {
    a.plen == b.plen && (a.plen < 1 || a.pay[0] == b.pay[0]) && (a.plen < 2 || a.pay[1] == b.pay[1])
}

fn name_of(k: &It) -> &str {
    // keys are ASCII by construction
    unsafe { std::str::from_utf8_unchecked(k.payload()) }
}

fn field<'a>(kind: u8, name: &'a str) -> Path<'a> {
    match kind {
        0 => Path::DotField(Cow::Borrowed(name)),
        1 => Path::ColonField(Cow::Borrowed(name)),
        _ => Path::ObjectField(Cow::Borrowed(name)),
    }
}

/// `$.name`, `$:name`, `$["name"]` on objects {k1: w2, k2: w0, k2': str1} (key widths 1,2,2; sorted distinct keys),
/// name of width 1 or 2: the member with exactly that key, or nothing
#[kani::proof]
#[kani::unwind(50)]
fn ks_name3() {
    let k = [key1(), key2(), key2()];
    kani::assume(key_lt(&k[0], &k[1]) && key_lt(&k[1], &k[2]));
    let v = [sc_w2().it, sc_w0().it, sc_str1().it];
    let doc = layout_object(&k, &v);
    let name_it = if kani::any() { key2() } else { key1() };
    let kind: u8 = kani::any();
    kani::assume(kind < 3);
    let path = JsonPath { paths: vec![Path::Root, field(kind, name_of(&name_it))] };
    let o = run_select(path, Mode::All, doc.as_slice());
    let mut w = Want::new(v[0]);
    let mut j = 0;
    while j < 3 {
        if key_eq(&k[j], &name_it) {
            w.push(v[j]);
        }
        j += 1;
    }
    check_items(&o, &w);
}

/// `$.*` on objects {k1: float9, k2: w0, k2': w2}: every member value in stored order; on an array: nothing
#[kani::proof]
#[kani::unwind(50)]
fn ks_dot_wildcard() {
    let k = [key1(), key2(), key2()];
    let v = [sc_float9().it, sc_w0().it, sc_w2().it];
    let doc = layout_object(&k, &v);
    let o = run_select(JsonPath { paths: vec![Path::Root, Path::DotWildcard] }, Mode::All, doc.as_slice());
    let mut w = Want::new(v[0]);
    w.push(v[0]);
    w.push(v[1]);
    w.push(v[2]);
    check_items(&o, &w);
    let adoc = layout_array(&v);
    let o2 = run_select(JsonPath { paths: vec![Path::Root, Path::DotWildcard] }, Mode::All, adoc.as_slice());
    check_items(&o2, &Want::new(v[0]));
}

/// `$[*]` on an array of widths 2,0,1,9: every element in order
#[kani::proof]
#[kani::unwind(50)]
fn ks_bracket_wildcard_array() {
    let a = arr_a();
    let doc = layout_array(&a);
    let o = run_select(JsonPath { paths: vec![Path::Root, Path::BracketWildcard] }, Mode::All, doc.as_slice());
    let mut w = Want::new(a[0]);
    push_range(&mut w, &a, 0, 3);
    check_items(&o, &w);
}

/// `$[*]` on a non-array (object {k: str1|w0}, scalar document): the value itself, unchanged (lax mode)
#[kani::proof]
#[kani::unwind(50)]
fn ks_bracket_wildcard_lax() {
    let k = [key1()];
    let v = [if kani::any() { sc_str1().it } else { sc_w0().it }];
    let obj = it_object(&k, &v);
    let doc = obj.doc();
    let o = run_select(JsonPath { paths: vec![Path::Root, Path::BracketWildcard] }, Mode::All, doc.as_slice());
    let mut w = Want::new(obj);
    w.push(obj);
    check_items(&o, &w);
    let s = if kani::any() { sc_w2().it } else { sc_w0().it };
    let sdoc = layout_scalar(&s);
    let o2 = run_select(JsonPath { paths: vec![Path::Root, Path::BracketWildcard] }, Mode::All, sdoc.as_slice());
    let mut w2 = Want::new(s);
    w2.push(s);
    check_items(&o2, &w2);
}

/// two steps: `$[*][*]` on [w0, [str1, w0], str2] (scalars pass the second `[*]` unchanged, the nested array is
/// unwrapped) and `$.k[i]` on {k: [w2, str1, w0]} (a container that does not start at offset 0)
#[kani::proof]
#[kani::unwind(50)]
fn ks_two_steps() {
    let inner = [sc_str1().it, sc_w0().it];
    let a = [sc_w0().it, it_array(&inner), sc_str2().it];
    let doc = layout_array(&a);
    let p = JsonPath { paths: vec![Path::Root, Path::BracketWildcard, Path::BracketWildcard] };
    let o = run_select(p, Mode::All, doc.as_slice());
    let mut w = Want::new(a[0]);
    w.push(a[0]);
    w.push(inner[0]);
    w.push(inner[1]);
    w.push(a[2]);
    check_items(&o, &w);

    let e = [sc_w2().it, sc_str1().it, sc_w0().it];
    let k = [key1()];
    let odoc = layout_object(&k, &[it_array(&e)]);
    let (idx, is_last, v) = any_index(-3, 3);
    let p2 = JsonPath {
        paths: vec![Path::Root, field(0, name_of(&k[0])), Path::ArrayIndices(vec![ArrayIndex::Index(idx)])],
    };
    let o2 = run_select(p2, Mode::All, odoc.as_slice());
    let mut w2 = Want::new(e[0]);
    if let Some(i) = spec_convert_index(is_last, v, 3) {
        w2.push(e[i]);
    }
    check_items(&o2, &w2);
}

// ------------------------------------------------------------------ modes on one path with 0..3 results
fn mode_path(s: i32, e: i32) -> JsonPath<'static> {
    root_indices(vec![ArrayIndex::Slice((Index::Index(s), Index::Index(e)))])
}

fn mode_case() -> ([It; 3], Buf, i32, i32, Want) {
    let a = arr_c();
    let doc = layout_array(&a);
    let s: i32 = kani::any();
    let e: i32 = kani::any();
    kani::assume(s >= 0 && s <= 3 && e >= 0 && e <= 2);
    let mut w = Want::new(a[0]);
    push_range(&mut w, &a, s as i64, e as i64);
    (a, doc, s, e, w)
}

/// Mode::First on `$[s to e]` over [w0, w2, w0] (0..=3 results, payload-less items included): the first item of the
/// Mode::All result or nothing; Mode::All itself is checked against the element list
#[kani::proof]
#[kani::unwind(50)]
fn ks_mode_first() {
    let (_a, doc, s, e, w) = mode_case();
    let all = run_select(mode_path(s, e), Mode::All, doc.as_slice());
    check_items(&all, &w);
    let first = run_select(mode_path(s, e), Mode::First, doc.as_slice());
    check_first(&first, &w);
    // stated on the two outputs directly
    if all.offsets.len() == 1 {
        assert!(first.offsets.len() == 1 && first.data.len() == NPRE);
    } else {
        let end = all.offsets[1] as usize;
        assert!(first.offsets.len() == 2 && first.offsets[1] == all.offsets[1] && first.data.len() == end);
        assert!(first.data[NPRE..end] == all.data[NPRE..end]);
    }
}

/// Mode::Array: README array of the Mode::All items (an empty array for no item) and exactly one offset
#[kani::proof]
#[kani::unwind(50)]
fn ks_mode_array() {
    let (_a, doc, s, e, w) = mode_case();
    let arr = run_select(mode_path(s, e), Mode::Array, doc.as_slice());
    check_array(&arr, &w);
}

/// Mode::Mixed: like Array for >= 2 items, like All otherwise; `exists` == (All result non-empty)
#[kani::proof]
#[kani::unwind(50)]
fn ks_mode_mixed_exists() {
    let (_a, doc, s, e, w) = mode_case();
    let mixed = run_select(mode_path(s, e), Mode::Mixed, doc.as_slice());
    check_mixed(&mixed, &w);
    assert!(run_exists(mode_path(s, e), doc.as_slice()) == (w.n > 0));
}

/// modes with items of width 9 / 2 and a nested container among the results: `$[*]` on [float9, [w0], str2]
#[kani::proof]
#[kani::unwind(50)]
fn ks_mode_array_wide() {
    let inner = [sc_w0().it];
    let a = [sc_float9().it, it_array(&inner), sc_str2().it];
    let doc = layout_array(&a);
    let mut w = Want::new(a[0]);
    push_range(&mut w, &a, 0, 2);
    let m = if kani::any() { Mode::Array } else { Mode::Mixed };
    let arr = run_select(JsonPath { paths: vec![Path::Root, Path::BracketWildcard] }, m, doc.as_slice());
    check_array(&arr, &w);
}

// ------------------------------------------------------------------ predicate path
fn pred_path<'a>(name: &'a str, lit: bool) -> JsonPath<'a> {
    JsonPath {
        paths: vec![Path::Predicate(Box::new(Expr::BinaryOp {
            op: BinaryOperator::Eq,
            left: Box::new(Expr::Paths(vec![Path::Root, Path::DotField(Cow::Borrowed(name))])),
            right: Box::new(Expr::Value(Box::new(PathValue::Boolean(lit)))),
        }))],
    }
}

fn any_mode() -> Mode {
    let m: u8 = kani::any();
    kani::assume(m < 4);
    match m {
        0 => Mode::First,
        1 => Mode::Array,
        2 => Mode::All,
        _ => Mode::Mixed,
    }
}

/// predicate `$.name == true|false` on {k1: null|true|false, k2: str1}: whatever the mode, `select` appends exactly the
/// boolean scalar document and exactly one offset; `predicate_match` returns the same boolean; `exists` is true;
/// `predicate_match` on a non-predicate path is an error
#[kani::proof]
#[kani::unwind(50)]
fn ks_predicate() {
    let k = [key1(), key2()];
    let v0 = sc_w0();
    let v = [v0.it, sc_str1().it];
    let doc = layout_object(&k, &v);
    let name_it = key1();
    let lit: bool = kani::any();
    let expect = key_eq(&k[0], &name_it) && ((lit && v0.kind == 1) || (!lit && v0.kind == 2));
    let o = run_select(pred_path(name_of(&name_it), lit), any_mode(), doc.as_slice());
    let mut w = Want::new(v[0]);
    w.push(It { word: if expect { T_TRUE } else { T_FALSE }, pay: [0u8; PAYMAX], plen: 0 });
    check_items(&o, &w);
    let sel = Selector::new(pred_path(name_of(&name_it), lit), Mode::First);
    assert!(sel.predicate_match(doc.as_slice()) == Ok(expect));
    assert!(sel.exists(doc.as_slice()) == Ok(true));
    let plain = Selector::new(JsonPath { paths: vec![Path::Root, Path::DotWildcard] }, Mode::First);
    assert!(plain.predicate_match(doc.as_slice()).is_err());
}

// ------------------------------------------------------------------ filter steps
/// `$[*]?(@.name == true)` on [{k: null|true|false}, {k': null|true|false}]: the member objects that satisfy the filter,
/// verbatim and in order
#[kani::proof]
#[kani::unwind(50)]
fn ks_filter_eq() {
    let k = [key1(), key1()];
    let v = [sc_w0(), sc_w0()];
    let objs = [it_object(&[k[0]], &[v[0].it]), it_object(&[k[1]], &[v[1].it])];
    let doc = layout_array(&objs);
    let name_it = key1();
    let name = name_of(&name_it);
    let path = JsonPath {
        paths: vec![
            Path::Root,
            Path::BracketWildcard,
            Path::FilterExpr(Box::new(Expr::BinaryOp {
                op: BinaryOperator::Eq,
                left: Box::new(Expr::Paths(vec![Path::Current, Path::DotField(Cow::Borrowed(name))])),
                right: Box::new(Expr::Value(Box::new(PathValue::Boolean(true)))),
            })),
        ],
    };
    let o = run_select(path, Mode::All, doc.as_slice());
    let mut w = Want::new(objs[0]);
    let mut j = 0;
    while j < 2 {
        if key_eq(&k[j], &name_it) && v[j].kind == 1 {
            w.push(objs[j]);
        }
        j += 1;
    }
    check_items(&o, &w);
}

/// `$[*]?(c < @.k)` / `$[*]?(c >= @.k)` (literal on the LEFT) on [{k: n0}, {k: n1}], n small Int64/UInt64, c in -3..=3
#[kani::proof]
#[kani::unwind(50)]
fn ks_filter_ord() {
    let key = key1();
    let v = [sc_num2(), sc_num2()];
    let objs = [it_object(&[key], &[v[0].it]), it_object(&[key], &[v[1].it])];
    let doc = layout_array(&objs);
    let c: i8 = kani::any();
    kani::assume(c >= -3 && c <= 3);
    let lt: bool = kani::any();
    let name = name_of(&key);
    let path = JsonPath {
        paths: vec![
            Path::Root,
            Path::BracketWildcard,
            Path::FilterExpr(Box::new(Expr::BinaryOp {
                op: if lt { BinaryOperator::Lt } else { BinaryOperator::Gte },
                left: Box::new(Expr::Value(Box::new(PathValue::Number(Number::Int64(c as i64))))),
                right: Box::new(Expr::Paths(vec![Path::Current, Path::DotField(Cow::Borrowed(name))])),
            })),
        ],
    };
    let o = run_select(path, Mode::All, doc.as_slice());
    let mut w = Want::new(objs[0]);
    let mut j = 0;
    while j < 2 {
        let holds = if lt { (c as i32) < v[j].num } else { (c as i32) >= v[j].num };
        if holds {
            w.push(objs[j]);
        }
        j += 1;
    }
    check_items(&o, &w);
}
