// Injected as `#[cfg(kani)] pub(crate) mod verif_kani_spec;` into lib.rs of a scratch copy of /repo.
// Executable copy of the README layout spec ("Encoding format"), independent of the crate's encoder:
// header word ‖ entry words ‖ payloads.  Used by the bounded harnesses to build flat symbolic
// documents and to state expected results.  Textually parallel to verus/prelude.rs (layout_*).
#![allow(dead_code)]

pub const MAXB: usize = 48; // capacity of a flat document buffer
pub const PAYMAX: usize = 24; // capacity of one item's payload

pub const SCALAR: u32 = 0x2000_0000;
pub const OBJECT: u32 = 0x4000_0000;
pub const ARRAY: u32 = 0x8000_0000;
pub const T_NULL: u32 = 0x0000_0000;
pub const T_STRING: u32 = 0x1000_0000;
pub const T_NUMBER: u32 = 0x2000_0000;
pub const T_FALSE: u32 = 0x3000_0000;
pub const T_TRUE: u32 = 0x4000_0000;
pub const T_CONTAINER: u32 = 0x5000_0000;

#[derive(Clone, Copy)]
pub struct Buf {
    pub b: [u8; MAXB],
    pub n: usize,
}

impl Buf {
    pub fn new() -> Buf {
        Buf { b: [0u8; MAXB], n: 0 }
    }
    pub fn push(&mut self, x: u8) {
        assert!(self.n < MAXB);
        self.b[self.n] = x;
        self.n += 1;
    }
    pub fn push_u32(&mut self, w: u32) {
        self.push((w >> 24) as u8);
        self.push((w >> 16) as u8);
        self.push((w >> 8) as u8);
        self.push(w as u8);
    }
    pub fn extend(&mut self, s: &[u8]) {
        let mut i = 0;
        while i < s.len() {
            self.push(s[i]);
            i += 1;
        }
    }
    pub fn as_slice(&self) -> &[u8] {
        &self.b[..self.n]
    }
    pub fn eq_slice(&self, s: &[u8]) -> bool {
        if s.len() != self.n {
            return false;
        }
        let mut i = 0;
        while i < self.n {
            if self.b[i] != s[i] {
                return false;
            }
            i += 1;
        }
        true
    }
}

/// one element of a container: its entry word (type | exact payload length) and its payload
#[derive(Clone, Copy)]
pub struct It {
    pub word: u32,
    pub pay: [u8; PAYMAX],
    pub plen: usize,
}

impl It {
    pub fn ty(&self) -> u32 {
        self.word & 0x7000_0000
    }
    pub fn payload(&self) -> &[u8] {
        &self.pay[..self.plen]
    }
    pub fn same(&self, o: &It) -> bool {
        if self.word != o.word || self.plen != o.plen {
            return false;
        }
        let mut i = 0;
        while i < self.plen {
            if self.pay[i] != o.pay[i] {
                return false;
            }
            i += 1;
        }
        true
    }
    pub fn from_parts(ty: u32, p: &[u8]) -> It {
        let mut pay = [0u8; PAYMAX];
        let mut i = 0;
        while i < p.len() {
            pay[i] = p[i];
            i += 1;
        }
        It { word: ty | p.len() as u32, pay, plen: p.len() }
    }
    /// the stand-alone document for this element: containers verbatim, scalars under a scalar header
    pub fn doc(&self) -> Buf {
        let mut b = Buf::new();
        if self.ty() == T_CONTAINER {
            b.extend(self.payload());
        } else {
            b.push_u32(SCALAR);
            b.push_u32(self.word);
            b.extend(self.payload());
        }
        b
    }
}

pub fn layout_array(items: &[It]) -> Buf {
    let mut b = Buf::new();
    b.push_u32(ARRAY | items.len() as u32);
    let mut i = 0;
    while i < items.len() {
        b.push_u32(items[i].word);
        i += 1;
    }
    i = 0;
    while i < items.len() {
        b.extend(items[i].payload());
        i += 1;
    }
    b
}

pub fn layout_object(keys: &[It], vals: &[It]) -> Buf {
    let mut b = Buf::new();
    b.push_u32(OBJECT | keys.len() as u32);
    let mut i = 0;
    while i < keys.len() {
        b.push_u32(keys[i].word);
        i += 1;
    }
    i = 0;
    while i < vals.len() {
        b.push_u32(vals[i].word);
        i += 1;
    }
    i = 0;
    while i < keys.len() {
        b.extend(keys[i].payload());
        i += 1;
    }
    i = 0;
    while i < vals.len() {
        b.extend(vals[i].payload());
        i += 1;
    }
    b
}

pub fn layout_scalar(it: &It) -> Buf {
    let mut b = Buf::new();
    b.push_u32(SCALAR);
    b.push_u32(it.word);
    b.extend(it.payload());
    b
}

/// a symbolic scalar element: null / true / false / a canonical one- or two-byte number / a string of <= maxs bytes
pub fn any_scalar(maxs: usize) -> It {
    let k: u8 = kani::any();
    kani::assume(k < 5);
    let mut pay = [0u8; PAYMAX];
    let (ty, plen) = match k {
        0 => (T_NULL, 0),
        1 => (T_TRUE, 0),
        2 => (T_FALSE, 0),
        3 => {
            // canonical compact numbers: 0 | Int64 in i8 range (non-zero) | UInt64 in u8 range (non-zero)
            let tag: u8 = kani::any();
            kani::assume(tag == 0x00 || tag == 0x40 || tag == 0x50);
            pay[0] = tag;
            if tag == 0x00 {
                (T_NUMBER, 1)
            } else {
                let v: u8 = kani::any();
                kani::assume(v != 0);
                pay[1] = v;
                (T_NUMBER, 2)
            }
        }
        _ => {
            let l: usize = kani::any();
            kani::assume(l <= maxs);
            let mut i = 0;
            while i < maxs {
                if i < l {
                    let c: u8 = kani::any();
                    kani::assume(c < 0x80); // ASCII keeps the payload valid UTF-8
                    pay[i] = c;
                }
                i += 1;
            }
            (T_STRING, l)
        }
    };
    It { word: ty | plen as u32, pay, plen }
}

/// a symbolic key: string of 0..=maxs ASCII bytes
pub fn any_key(maxs: usize) -> It {
    let mut pay = [0u8; PAYMAX];
    let l: usize = kani::any();
    kani::assume(l <= maxs);
    let mut i = 0;
    while i < maxs {
        if i < l {
            let c: u8 = kani::any();
            kani::assume(c < 0x80);
            pay[i] = c;
        }
        i += 1;
    }
    It { word: T_STRING | l as u32, pay, plen: l }
}

/// lexicographic byte order of two keys (what BTreeMap<String,_> / str::cmp use)
pub fn key_lt(a: &It, b: &It) -> bool {
    let mut i = 0;
    while i < a.plen && i < b.plen {
        if a.pay[i] != b.pay[i] {
            return a.pay[i] < b.pay[i];
        }
        i += 1;
    }
    a.plen < b.plen
}

/// a symbolic nested container with <= 1 scalar element (array) or <= 1 member (object), as an element
pub fn any_small_container(maxs: usize) -> It {
    let is_obj: bool = kani::any();
    let n: usize = kani::any();
    kani::assume(n <= 1);
    let b = if is_obj {
        let k = [any_key(maxs)];
        let v = [any_scalar(maxs)];
        layout_object(&k[..n], &v[..n])
    } else {
        let v = [any_scalar(maxs)];
        layout_array(&v[..n])
    };
    It::from_parts(T_CONTAINER, b.as_slice())
}

/// a symbolic element: scalar or small nested container
pub fn any_elem(maxs: usize) -> It {
    if kani::any() {
        any_scalar(maxs)
    } else {
        any_small_container(maxs)
    }
}

pub fn be32(buf: &[u8], i: usize) -> u32 {
    ((buf[i] as u32) << 24) | ((buf[i + 1] as u32) << 16) | ((buf[i + 2] as u32) << 8) | (buf[i + 3] as u32)
}

pub fn be32_bytes(w: u32) -> [u8; 4] {
    [(w >> 24) as u8, (w >> 16) as u8, (w >> 8) as u8, w as u8]
}

/// `n` selects element n iff 0 <= n < len; `last + k` selects len-1+k iff in range (unbounded arithmetic)
pub fn spec_convert_index(is_last: bool, v: i32, length: i32) -> Option<usize> {
    let len = length as i128;
    let idx = if is_last { len - 1 + v as i128 } else { v as i128 };
    if idx >= 0 && idx < len { Some(idx as usize) } else { None }
}

// ---- leaf harnesses for the trusted shims of verus/shims.rs ----
/// [K leaf] u32::to_be_bytes is be32_bytes (shim vx_to_be_bytes), u32::from_be_bytes is be32
#[kani::proof]
fn leaf_be_bytes() {
    let w: u32 = kani::any();
    assert!(w.to_be_bytes() == be32_bytes(w));
    let b: [u8; 4] = kani::any();
    assert!(u32::from_be_bytes(b) == be32(&b, 0));
    assert!(be32(&be32_bytes(w), 0) == w);
}

/// [K leaf] byteorder write_u32::<BigEndian> appends be32_bytes(n); read_u32::<BigEndian> on &[u8]
/// reads be32 and advances by 4, or fails and leaves fewer than 4 bytes unread
#[kani::proof]
#[kani::unwind(10)]
fn leaf_byteorder_rw() {
    use byteorder::{BigEndian, ReadBytesExt, WriteBytesExt};
    let n: u32 = kani::any();
    let mut v: Vec<u8> = Vec::new();
    let pre: u8 = kani::any();
    v.push(pre);
    assert!(v.write_u32::<BigEndian>(n).is_ok());
    assert!(v.len() == 5 && v[0] == pre && v[1..5] == be32_bytes(n));
    let raw: [u8; 6] = kani::any();
    let len: usize = kani::any();
    kani::assume(len <= 6);
    let mut s: &[u8] = &raw[..len];
    let r = s.read_u32::<BigEndian>();
    if len >= 4 {
        assert!(r.is_ok() && r.unwrap() == be32(&raw, 0) && s.len() == len - 4);
    } else {
        assert!(r.is_err());
    }
}

// ---------------------------------------------------------------------------------------------
// Small scalar model for the bounded twins: a scalar with its abstract value next to its encoding
#[derive(Clone, Copy)]
pub struct Sc {
    pub kind: u8,   // 0 null, 1 true, 2 false, 3 number, 4 string
    pub num: i32,   // value for numbers (menu: small signed, small unsigned, the float 1.0 / 2.0)
    pub s: [u8; 2], // string bytes
    pub slen: usize,
    pub it: It,     // README encoding of this scalar as an element
}

/// menu of scalars: null | true | false | Int64 in i8 range | UInt64 in u8 range | Float64 1.0 or 2.0 | string of <= 2 ASCII bytes.
/// Numbers of equal value come in encodings of different widths (2 bytes vs 9 bytes).
pub fn any_sc() -> Sc {
    let k: u8 = kani::any();
    kani::assume(k < 7);
    let mut pay = [0u8; PAYMAX];
    let mut sc = Sc { kind: 0, num: 0, s: [0; 2], slen: 0, it: It { word: T_NULL, pay, plen: 0 } };
    match k {
        0 => {}
        1 => { sc.kind = 1; sc.it.word = T_TRUE; }
        2 => { sc.kind = 2; sc.it.word = T_FALSE; }
        3 => {
            let v: i8 = kani::any();
            kani::assume(v != 0);
            pay[0] = 0x40; pay[1] = v as u8;
            sc.kind = 3; sc.num = v as i32; sc.it = It { word: T_NUMBER | 2, pay, plen: 2 };
        }
        4 => {
            let v: u8 = kani::any();
            kani::assume(v != 0);
            pay[0] = 0x50; pay[1] = v;
            sc.kind = 3; sc.num = v as i32; sc.it = It { word: T_NUMBER | 2, pay, plen: 2 };
        }
        5 => {
            // 1.0 = 3FF0000000000000, 2.0 = 4000000000000000
            let two: bool = kani::any();
            pay[0] = 0x60;
            if two { pay[1] = 0x40; sc.num = 2; } else { pay[1] = 0x3F; pay[2] = 0xF0; sc.num = 1; }
            sc.kind = 3; sc.it = It { word: T_NUMBER | 9, pay, plen: 9 };
        }
        _ => {
            let l: usize = kani::any();
            kani::assume(l <= 2);
            let c0: u8 = kani::any(); let c1: u8 = kani::any();
            kani::assume(c0 < 0x80 && c1 < 0x80);
            if l > 0 { pay[0] = c0; sc.s[0] = c0; }
            if l > 1 { pay[1] = c1; sc.s[1] = c1; }
            sc.kind = 4; sc.slen = l; sc.it = It { word: T_STRING | l as u32, pay, plen: l };
        }
    }
    sc
}

fn sc_level(s: &Sc) -> u8 {
    // documented ranking: Null > (containers) > String > Number > true > false
    match s.kind { 0 => 7, 4 => 4, 3 => 3, 1 => 2, _ => 1 }
}

/// the documented order on scalars: -1 / 0 / 1
pub fn sc_cmp(a: &Sc, b: &Sc) -> i8 {
    let (la, lb) = (sc_level(a), sc_level(b));
    if la != lb { return if la < lb { -1 } else { 1 }; }
    match a.kind {
        3 => if a.num < b.num { -1 } else if a.num > b.num { 1 } else { 0 },
        4 => {
            let mut i = 0;
            while i < 2 {
                if i >= a.slen || i >= b.slen { break; }
                if a.s[i] != b.s[i] { return if a.s[i] < b.s[i] { -1 } else { 1 }; }
                i += 1;
            }
            if a.slen < b.slen { -1 } else if a.slen > b.slen { 1 } else { 0 }
        }
        _ => 0,
    }
}

// ---------------------------------------------------------------------------------------------
// Concrete-shape / symbolic-content constructors: every constructor has a CONCRETE payload width, so that all
// offsets of a document built from them are constants for CBMC (cheap), while the bytes stay symbolic.
fn mk(kind: u8, num: i32, s: [u8; 2], slen: usize, word: u32, p: &[u8]) -> Sc {
    let mut pay = [0u8; PAYMAX];
    let mut i = 0;
    while i < p.len() { pay[i] = p[i]; i += 1; }
    Sc { kind, num, s, slen, it: It { word, pay, plen: p.len() } }
}
pub fn sc_null() -> Sc { mk(0, 0, [0; 2], 0, T_NULL, &[]) }
pub fn sc_bool() -> Sc { if kani::any() { mk(1, 0, [0; 2], 0, T_TRUE, &[]) } else { mk(2, 0, [0; 2], 0, T_FALSE, &[]) } }
/// width 0: null | true | false
pub fn sc_w0() -> Sc { if kani::any() { sc_null() } else { sc_bool() } }
/// width 2: Int64 in i8 range | UInt64 in u8 range (non-zero)
pub fn sc_num2() -> Sc {
    let v: u8 = kani::any();
    kani::assume(v != 0);
    if kani::any() { mk(3, (v as i8) as i32, [0; 2], 0, T_NUMBER | 2, &[0x40, v]) } else { mk(3, v as i32, [0; 2], 0, T_NUMBER | 2, &[0x50, v]) }
}
/// width 9: Float64 with value 1.0 .. 4.0 (exactly representable small integers: 1,2,3,4)
pub fn sc_float9() -> Sc {
    let k: u8 = kani::any();
    kani::assume(k < 4);
    // 1.0=3FF0.., 2.0=4000.., 3.0=4008.., 4.0=4010..
    let (b1, b2, v) = match k { 0 => (0x3F, 0xF0, 1), 1 => (0x40, 0x00, 2), 2 => (0x40, 0x08, 3), _ => (0x40, 0x10, 4) };
    mk(3, v, [0; 2], 0, T_NUMBER | 9, &[0x60, b1, b2, 0, 0, 0, 0, 0, 0])
}
pub fn sc_str0() -> Sc { mk(4, 0, [0; 2], 0, T_STRING, &[]) }
pub fn sc_str1() -> Sc { let c: u8 = kani::any(); kani::assume(c < 0x80); mk(4, 0, [c, 0], 1, T_STRING | 1, &[c]) }
pub fn sc_str2() -> Sc {
    let c: u8 = kani::any(); let d: u8 = kani::any();
    kani::assume(c < 0x80 && d < 0x80);
    mk(4, 0, [c, d], 2, T_STRING | 2, &[c, d])
}
/// width 2, any type: number or 2-byte string
pub fn sc_w2() -> Sc { if kani::any() { sc_num2() } else { sc_str2() } }
/// key items of concrete width
pub fn key1() -> It { sc_str1().it }
pub fn key2() -> It { sc_str2().it }
/// nested array with exactly the given elements, as a CONTAINER element
pub fn it_array(items: &[It]) -> It { It::from_parts(T_CONTAINER, layout_array(items).as_slice()) }
pub fn it_object(keys: &[It], vals: &[It]) -> It { It::from_parts(T_CONTAINER, layout_object(keys, vals).as_slice()) }
