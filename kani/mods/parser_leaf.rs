// Injected as `#[cfg(kani)] mod verif_kani_parser_leaf;` (child of crate::parser).  C02, level "bounded".
// `parse_value` as a whole cannot be run by CBMC (recursion + BTreeMap + number conversion: > 10 min even for 1-byte
// inputs), so the NON-RECURSIVE scanners of the text parser are run directly on every short input over small alphabets:
// they must return a value or an error, never panic / index out of bounds / overflow.
#![allow(unused_imports, dead_code)]
use super::*;

/// the float conversion of the external crate fast_float2 is replaced by an arbitrary answer (value or error)
fn ff_any<F>(s: &[u8]) -> Option<(F, usize)> {
    let n: usize = kani::any();
    kani::assume(n <= s.len());
    if kani::any() { None } else { Some((unsafe { core::mem::zeroed() }, n)) }
}

fn str_sym(k: u8) -> u8 {
    match k {
        0 => b'"', 1 => b'\\', 2 => b'u', 3 => b'{', 4 => b'}', 5 => b'n', 6 => b'0', 7 => b'D', 8 => b'8', _ => b'a',
    }
}

fn num_sym(k: u8) -> u8 {
    match k {
        0 => b'0', 1 => b'1', 2 => b'9', 3 => b'-', 4 => b'+', 5 => b'.', 6 => b'e', 7 => b'E', _ => b' ',
    }
}

/// string scanner + escape decoder: `"` followed by every sequence of <= 4 symbols over `" \ u { } n 0 D 8 a`
/// (unterminated strings, escapes at the end, \u with too few digits, \u{..}, surrogate prefixes \uD8..)
#[kani::proof]
#[kani::unwind(7)]
fn kp_string_total() {
    let mut raw = [0u8; 5];
    raw[0] = b'"';
    let mut i = 1;
    while i < 5 {
        let k: u8 = kani::any();
        kani::assume(k < 10);
        raw[i] = str_sym(k);
        i += 1;
    }
    let len: usize = kani::any();
    kani::assume(len >= 1 && len <= 5);
    let mut p = Parser::new(&raw[..len]);
    match p.parse_json_string() {
        Ok(_) => {}
        Err(_) => {}
    }
}

/// number scanner: every sequence of <= 4 symbols over `0 1 9 - + . e E space`
#[kani::proof]
#[kani::unwind(7)]
#[kani::stub(fast_float2::parse::parse_float, ff_any)]
fn kp_number_total() {
    let mut raw = [0u8; 4];
    let mut i = 0;
    while i < 4 {
        let k: u8 = kani::any();
        kani::assume(k < 9);
        raw[i] = num_sym(k);
        i += 1;
    }
    let len: usize = kani::any();
    kani::assume(len <= 4);
    let mut p = Parser::new(&raw[..len]);
    match p.parse_json_number() {
        Ok(_) => {}
        Err(_) => {}
    }
}

/// white-space skipper and the literals null / true / false: every input of <= 5 ARBITRARY bytes
#[kani::proof]
#[kani::unwind(8)]
fn kp_skip_literals_total() {
    let raw: [u8; 5] = kani::any();
    let len: usize = kani::any();
    kani::assume(len <= 5);
    let mut p = Parser::new(&raw[..len]);
    p.skip_unused();
    assert!(p.idx <= len);
    let at = p.idx;
    let r = match kani::any::<u8>() % 3 {
        0 => p.parse_json_null(),
        1 => p.parse_json_true(),
        _ => p.parse_json_false(),
    };
    match r {
        Ok(_) => assert!(p.idx <= len && p.idx >= at + 4),
        Err(_) => {}
    }
}
