// Injected as `#[cfg(kani)] mod verif_kani_functions;` (child of crate::functions) into a scratch copy of /repo.
// Bounded harnesses (level "bounded", never counted as proved): the real byte-level functions are run on
// flat symbolic documents built by the README layout spec (crate::verif_kani_spec) and compared with the
// answer computed on the element list.  They serve as twins (counterexample search) of the Verus units.
#![allow(unused_imports, dead_code)]
use super::*;
use crate::verif_kani_spec::*;

/// every harness stubs the JSON text parser: a binary document must never reach the text branch
pub(crate) fn no_text(_buf: &[u8]) -> Result<Value<'_>, Error> {
    panic!("text branch reached with a JSONB argument")
}

fn opt_eq(got: &Option<Vec<u8>>, want: Option<&Buf>) -> bool {
    match (got, want) {
        (None, None) => true,
        (Some(g), Some(w)) => w.eq_slice(g.as_slice()),
        _ => false,
    }
}

// ------------------------------------------------------------------ C05 accessors
/// get_by_index / array_length on arrays of <= 3 elements (scalars with payload <= 2 bytes, or
/// nested containers with <= 1 member), every index 0..=4
#[kani::proof]
#[kani::unwind(70)]
#[kani::stub(crate::parser::parse_value, no_text)]
fn kb_get_by_index() {
    let items = [any_elem(2), any_elem(2), any_elem(2)];
    let n: usize = kani::any();
    kani::assume(n <= 3);
    let doc = layout_array(&items[..n]);
    let idx: usize = kani::any();
    kani::assume(idx <= 4);
    kani::cover!(n == 3 && idx == 2 && items[1].plen > 0);
    let got = get_by_index(doc.as_slice(), idx);
    if idx < n {
        let want = items[idx].doc();
        assert!(opt_eq(&got, Some(&want)));
    } else {
        assert!(got.is_none());
    }
    assert!(array_length(doc.as_slice()) == Some(n));
}


// ------------------------------------------------------------------ leaf contracts (complete)
/// [K leaf] the private read_u32 of functions.rs against its injected contract
/// (Ok(be32(buf, idx)) iff idx + 4 <= len, else Err); slice length <= 12, idx arbitrary <= usize::MAX - 4
#[kani::proof_for_contract(read_u32)]
fn leaf_read_u32_functions() {
    let raw: [u8; 12] = kani::any();
    let len: usize = kani::any();
    kani::assume(len <= 12);
    let idx: usize = kani::any();
    let _ = read_u32(&raw[..len], idx);
}

// ------------------------------------------------------------------ numbers through documents (complete in the numbers)
fn any_number() -> Number {
    let k: u8 = kani::any();
    kani::assume(k < 3);
    match k {
        0 => Number::Int64(kani::any()),
        1 => Number::UInt64(kani::any()),
        _ => Number::Float64(kani::any()),
    }
}

/// scalar document holding `n`, built with the real compact_encode (proved exact by num_codec_roundtrip)
fn num_doc(n: &Number) -> ([u8; 17], usize) {
    let mut d = [0u8; 17];
    d[0] = 0x20;
    let w = {
        let mut cur: &mut [u8] = &mut d[8..];
        let before = cur.len();
        n.compact_encode(&mut cur).unwrap();
        before - cur.len()
    };
    d[4] = 0x20; // NUMBER_TAG | len
    d[7] = w as u8;
    (d, 8 + w)
}

fn small_or_float(n: &Number) -> bool {
    match n {
        Number::Int64(v) => *v >= -(1i64 << 53) && *v <= (1i64 << 53),
        Number::UInt64(v) => *v <= (1u64 << 53),
        Number::Float64(_) => true,
    }
}

fn key_order_agrees(a: &Number, b: &Number) -> bool {
    let (da, la) = num_doc(a);
    let (db, lb) = num_doc(b);
    let mut ka = Vec::new();
    let mut kb = Vec::new();
    convert_to_comparable(&da[..la], &mut ka);
    convert_to_comparable(&db[..lb], &mut kb);
    let c = compare(&da[..la], &db[..lb]);
    c.is_ok() && ka.as_slice().cmp(kb.as_slice()) == c.unwrap()
}

/// C14 on scalar numbers whose integers are exactly representable as f64 (|v| <= 2^53): key order == compare order
#[kani::proof]
#[kani::unwind(12)]
#[kani::solver(cvc5)]
#[kani::stub(crate::parser::parse_value, no_text)]
fn keynum_order_exact_range() {
    let a = any_number();
    let b = any_number();
    kani::assume(small_or_float(&a) && small_or_float(&b));
    assert!(key_order_agrees(&a, &b));
}

/// C14 on ALL scalar numbers (expected to fail on the current tree: finding F13, integers beyond 2^53)
#[kani::proof]
#[kani::unwind(12)]
#[kani::solver(cvc5)]
#[kani::stub(crate::parser::parse_value, no_text)]
fn keynum_order_full() {
    let a = any_number();
    let b = any_number();
    assert!(key_order_agrees(&a, &b));
}

/// C12: containment of scalars / in one-element arrays uses the equality that compare reports
#[kani::proof]
#[kani::unwind(12)]
#[kani::solver(cvc5)]
#[kani::stub(crate::parser::parse_value, no_text)]
fn containsnum_scalar_eq() {
    let a = any_number();
    let b = any_number();
    let (da, la) = num_doc(&a);
    let (db, lb) = num_doc(&b);
    let eq = compare(&da[..la], &db[..lb]) == Ok(std::cmp::Ordering::Equal);
    assert!(eq == (a == b));
    // scalar contains scalar
    assert!(contains(&da[..la], &db[..lb]) == eq);
    // one-element array [a] contains scalar b, and contains [b]
    let mut arr_a = [0u8; 17];
    arr_a[0] = 0x80; arr_a[3] = 1; arr_a[4] = 0x20; arr_a[7] = (la - 8) as u8;
    let mut i = 0; while i < 9 { if 8 + i < la { arr_a[8 + i] = da[8 + i]; } i += 1; }
    let mut arr_b = [0u8; 17];
    arr_b[0] = 0x80; arr_b[3] = 1; arr_b[4] = 0x20; arr_b[7] = (lb - 8) as u8;
    i = 0; while i < 9 { if 8 + i < lb { arr_b[8 + i] = db[8 + i]; } i += 1; }
    assert!(contains(&arr_a[..la], &db[..lb]) == eq);
    assert!(contains(&arr_a[..la], &arr_b[..lb]) == eq);
}
