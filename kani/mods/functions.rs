// Injected as `#[cfg(kani)] mod verif_kani_functions;` (child of crate::functions) into a scratch copy of /repo.
// Bounded harnesses (level "bounded", never counted as proved): the real byte-level functions are run on
// flat symbolic documents built by the README layout spec (crate::verif_kani_spec) and compared with the
// answer computed on the element list.  They serve as twins (counterexample search) of the Verus units.
#![allow(unused_imports, dead_code)]
use super::*;
use crate::verif_kani_spec::*;

/// every harness stubs the JSON text parser: a binary document must never reach the text branch
pub(crate) fn no_text(_buf: &[u8]) -> Result<Value<'_>, Error> {
    panic!("text branch reached with a JSONB argument")
}

fn opt_eq(got: &Option<Vec<u8>>, want: Option<&Buf>) -> bool {
    match (got, want) {
        (None, None) => true,
        (Some(g), Some(w)) => w.eq_slice(g.as_slice()),
        _ => false,
    }
}

// ------------------------------------------------------------------ leaf contracts (complete)
/// [K leaf] the private read_u32 of functions.rs against its injected contract
/// (Ok(be32(buf, idx)) iff idx + 4 <= len, else Err); slice length <= 12, idx arbitrary <= usize::MAX - 4
#[kani::proof_for_contract(read_u32)]
fn leaf_read_u32_functions() {
    let raw: [u8; 12] = kani::any();
    let len: usize = kani::any();
    kani::assume(len <= 12);
    let idx: usize = kani::any();
    let _ = read_u32(&raw[..len], idx);
}

// ------------------------------------------------------------------ C04 compare (bounded twin of unit cmp)
// Concrete shapes (all offsets constant), symbolic contents.  Several width profiles so that equal values of different
// widths (1 as Int64: 2 bytes, 1.0 as Float64: 9 bytes) sit in front of further elements.
fn ord_i8(o: std::cmp::Ordering) -> i8 {
    match o { std::cmp::Ordering::Less => -1, std::cmp::Ordering::Equal => 0, std::cmp::Ordering::Greater => 1 }
}

fn check_compare2(a: [Sc; 2], b: [Sc; 2]) {
    let da = layout_array(&[a[0].it, a[1].it]);
    let db = layout_array(&[b[0].it, b[1].it]);
    let want = { let c = sc_cmp(&a[0], &b[0]); if c != 0 { c } else { sc_cmp(&a[1], &b[1]) } };
    let r = compare(da.as_slice(), db.as_slice());
    assert!(r.is_ok());
    assert!(ord_i8(r.unwrap()) == want);
    let r2 = compare(db.as_slice(), da.as_slice());
    assert!(r2.is_ok() && ord_i8(r2.unwrap()) == -want);
}

/// [float9, w2] against [num2, w2]: equal first elements of different widths, then a deciding second element
#[kani::proof]
#[kani::unwind(34)]
#[kani::stub(crate::parser::parse_value, no_text)]
fn kb_compare_f9_n2() {
    check_compare2([sc_float9(), sc_w2()], [sc_num2(), sc_w2()]);
}

/// [w2, w0] against [w2, str1]
#[kani::proof]
#[kani::unwind(34)]
#[kani::stub(crate::parser::parse_value, no_text)]
fn kb_compare_w2_w0() {
    check_compare2([sc_w2(), sc_w0()], [sc_w2(), sc_str1()]);
}

/// nested: [[float9, num2]] against [[num2, num2]] and object-vs-array ranking inside arrays
#[kani::proof]
#[kani::unwind(40)]
#[kani::stub(crate::parser::parse_value, no_text)]
fn kb_compare_nested() {
    let a = [sc_float9(), sc_num2()];
    let b = [sc_num2(), sc_num2()];
    let da = layout_array(&[it_array(&[a[0].it, a[1].it])]);
    let db = layout_array(&[it_array(&[b[0].it, b[1].it])]);
    let want = { let c = sc_cmp(&a[0], &b[0]); if c != 0 { c } else { sc_cmp(&a[1], &b[1]) } };
    let r = compare(da.as_slice(), db.as_slice());
    assert!(r.is_ok() && ord_i8(r.unwrap()) == want);
    // kinds: Array > Object inside an enclosing array, and a null element is greater than any container
    let k = key1();
    let dobj = layout_array(&[it_object(&[k], &[b[0].it])]);
    assert!(compare(da.as_slice(), dobj.as_slice()) == Ok(std::cmp::Ordering::Greater));
    assert!(compare(dobj.as_slice(), da.as_slice()) == Ok(std::cmp::Ordering::Less));
    let dnull = layout_array(&[sc_null().it]);
    assert!(compare(dnull.as_slice(), da.as_slice()) == Ok(std::cmp::Ordering::Greater));
}

// ------------------------------------------------------------------ C05 accessors (bounded twins of units walk/walk2/acc)
/// arrays [w2, float9, w0|str1, str2]: get_by_index for every index 0..=5, array_length
#[kani::proof]
#[kani::unwind(34)]
#[kani::stub(crate::parser::parse_value, no_text)]
fn kb_get_by_index4() {
    let a = [sc_w2(), sc_float9(), sc_str1(), sc_str2()];
    let doc = layout_array(&[a[0].it, a[1].it, a[2].it, a[3].it]);
    let idx: usize = kani::any();
    kani::assume(idx <= 5);
    let got = get_by_index(doc.as_slice(), idx);
    // NOTE: no symbolic indexing into the array of element structs (`a[idx]`): CBMC reported a spurious failure
    // for that pattern which disappears with the index made concrete; the cases are enumerated instead.
    if idx == 0 { let w = a[0].it.doc(); assert!(opt_eq(&got, Some(&w))); }
    else if idx == 1 { let w = a[1].it.doc(); assert!(opt_eq(&got, Some(&w))); }
    else if idx == 2 { let w = a[2].it.doc(); assert!(opt_eq(&got, Some(&w))); }
    else if idx == 3 { let w = a[3].it.doc(); assert!(opt_eq(&got, Some(&w))); }
    else { assert!(got.is_none()); }
    assert!(array_length(doc.as_slice()) == Some(4));
}

/// objects {k1: w2, k2: float9, k2': str1} with keys of widths 1,2,2 (sorted, distinct): get_by_name exact / ignore-case
#[kani::proof]
#[kani::unwind(34)]
#[kani::stub(crate::parser::parse_value, no_text)]
fn kb_get_by_name3() {
    let k = [key1(), key2(), key2()];
    kani::assume(key_lt(&k[0], &k[1]) && key_lt(&k[1], &k[2]));
    let v = [sc_w2(), sc_float9(), sc_str1()];
    let doc = layout_object(&k, &[v[0].it, v[1].it, v[2].it]);
    let two: bool = kani::any();
    let name_it = if two { key2() } else { key1() };
    let name = std::str::from_utf8(name_it.payload()).unwrap();
    let ic = false;
    let eq = |a: &It, b: &It| a.plen == b.plen && a.pay[0] == b.pay[0] && (a.plen < 2 || a.pay[1] == b.pay[1]);
    let mut want: Option<usize> = None;
    let mut j = 0;
    while j < 3 { if want.is_none() && eq(&k[j], &name_it) { want = Some(j); } j += 1; }
    let got = get_by_name(doc.as_slice(), name, ic);
    match want {
        Some(0) => { let w = v[0].it.doc(); assert!(opt_eq(&got, Some(&w))); }
        Some(1) => { let w = v[1].it.doc(); assert!(opt_eq(&got, Some(&w))); }
        Some(_) => { let w = v[2].it.doc(); assert!(opt_eq(&got, Some(&w))); }
        None => assert!(got.is_none()),
    }
}

/// ignore-case lookup on objects with two 1-byte keys: exact match wins wherever it is, else the first key that matches ignoring ASCII case
#[kani::proof]
#[kani::unwind(34)]
#[kani::stub(crate::parser::parse_value, no_text)]
fn kb_get_by_name_icase2() {
    let k = [key1(), key1()];
    kani::assume(k[0].pay[0] < k[1].pay[0]);
    let v = [sc_w2(), sc_str1()];
    let doc = layout_object(&k, &[v[0].it, v[1].it]);
    let name_it = key1();
    let name = std::str::from_utf8(name_it.payload()).unwrap();
    let lower = |c: u8| if c >= b'A' && c <= b'Z' { c + 32 } else { c };
    let n0 = name_it.pay[0];
    let want: Option<usize> = if k[0].pay[0] == n0 { Some(0) } else if k[1].pay[0] == n0 { Some(1) }
        else if lower(k[0].pay[0]) == lower(n0) { Some(0) } else if lower(k[1].pay[0]) == lower(n0) { Some(1) } else { None };
    let got = get_by_name(doc.as_slice(), name, true);
    match want {
        Some(0) => { let w = v[0].it.doc(); assert!(opt_eq(&got, Some(&w))); }
        Some(_) => { let w = v[1].it.doc(); assert!(opt_eq(&got, Some(&w))); }
        None => assert!(got.is_none()),
    }
}

// ------------------------------------------------------------------ C14 comparable key on numbers (bounded twin of unit key)
fn key_of(doc: &[u8]) -> Vec<u8> {
    let mut k = vec![0xEE];          // non-empty prior buffer: the writer must only append
    convert_to_comparable(doc, &mut k);
    assert!(k[0] == 0xEE);
    k
}

fn cmp_bytes(a: &[u8], b: &[u8]) -> i8 {
    let mut i = 0;
    while i < a.len() && i < b.len() {
        if a[i] != b[i] { return if a[i] < b[i] { -1 } else { 1 }; }
        i += 1;
    }
    if a.len() < b.len() { -1 } else if a.len() > b.len() { 1 } else { 0 }
}

/// scalar number documents (Int64 in i8 range incl. negatives, UInt64 in u8 range, Float64 1..4): key order == compare order
#[kani::proof]
#[kani::unwind(20)]
#[kani::stub(crate::parser::parse_value, no_text)]
fn kb_cmpkey_numbers() {
    let a = if kani::any() { sc_num2() } else { sc_float9() };
    let b = sc_num2();
    let da = layout_scalar(&a.it);
    let db = layout_scalar(&b.it);
    let ka = key_of(da.as_slice());
    let kb = key_of(db.as_slice());
    let c = compare(da.as_slice(), db.as_slice());
    assert!(c.is_ok());
    let o = ord_i8(c.unwrap());
    assert!(cmp_bytes(&ka, &kb) == o);
    assert!(o == sc_cmp(&a, &b));
}
