// Injected as `#[cfg(kani)] mod verif_kani_functions;` (child of crate::functions) into a scratch copy of /repo.
// Bounded harnesses (level "bounded", never counted as proved): the real byte-level functions are run on
// flat symbolic documents built by the README layout spec (crate::verif_kani_spec) and compared with the
// answer computed on the element list.  They serve as twins (counterexample search) of the Verus units.
#![allow(unused_imports, dead_code)]
use super::*;
use crate::verif_kani_spec::*;

/// every harness stubs the JSON text parser: a binary document must never reach the text branch
pub(crate) fn no_text(_buf: &[u8]) -> Result<Value<'_>, Error> {
    panic!("text branch reached with a JSONB argument")
}

fn opt_eq(got: &Option<Vec<u8>>, want: Option<&Buf>) -> bool {
    match (got, want) {
        (None, None) => true,
        (Some(g), Some(w)) => w.eq_slice(g.as_slice()),
        _ => false,
    }
}

// ------------------------------------------------------------------ C05 accessors
/// get_by_index / array_length on arrays of <= 3 elements (scalars with payload <= 2 bytes, or
/// nested containers with <= 1 member), every index 0..=4
#[kani::proof]
#[kani::unwind(70)]
#[kani::stub(crate::parser::parse_value, no_text)]
fn kb_get_by_index() {
    let items = [any_elem(2), any_elem(2), any_elem(2)];
    let n: usize = kani::any();
    kani::assume(n <= 3);
    let doc = layout_array(&items[..n]);
    let idx: usize = kani::any();
    kani::assume(idx <= 4);
    kani::cover!(n == 3 && idx == 2 && items[1].plen > 0);
    let got = get_by_index(doc.as_slice(), idx);
    if idx < n {
        let want = items[idx].doc();
        assert!(opt_eq(&got, Some(&want)));
    } else {
        assert!(got.is_none());
    }
    assert!(array_length(doc.as_slice()) == Some(n));
}


// ------------------------------------------------------------------ leaf contracts (complete)
/// [K leaf] the private read_u32 of functions.rs against its injected contract
/// (Ok(be32(buf, idx)) iff idx + 4 <= len, else Err); slice length <= 12, idx arbitrary <= usize::MAX - 4
#[kani::proof_for_contract(read_u32)]
fn leaf_read_u32_functions() {
    let raw: [u8; 12] = kani::any();
    let len: usize = kani::any();
    kani::assume(len <= 12);
    let idx: usize = kani::any();
    let _ = read_u32(&raw[..len], idx);
}

// ------------------------------------------------------------------ C04 compare (bounded twin of unit cmp)
fn ord_i8(o: std::cmp::Ordering) -> i8 {
    match o { std::cmp::Ordering::Less => -1, std::cmp::Ordering::Equal => 0, std::cmp::Ordering::Greater => 1 }
}

/// arrays of exactly two scalars from the menu of crate::verif_kani_spec::any_sc (equal numbers come in
/// encodings of different widths): compare == lexicographic order of the element values, and is antisymmetric
#[kani::proof]
#[kani::unwind(40)]
#[kani::stub(crate::parser::parse_value, no_text)]
fn kb_compare_arrays2() {
    let a = [any_sc(), any_sc()];
    let b = [any_sc(), any_sc()];
    let da = layout_array(&[a[0].it, a[1].it]);
    let db = layout_array(&[b[0].it, b[1].it]);
    let want = { let c = sc_cmp(&a[0], &b[0]); if c != 0 { c } else { sc_cmp(&a[1], &b[1]) } };
    let r = compare(da.as_slice(), db.as_slice());
    assert!(r.is_ok());
    assert!(ord_i8(r.unwrap()) == want);
    let r2 = compare(db.as_slice(), da.as_slice());
    assert!(r2.is_ok() && ord_i8(r2.unwrap()) == -want);
    kani::cover!(want == 0 && a[0].it.plen != b[0].it.plen);
}

// ------------------------------------------------------------------ C05 accessors (bounded twins of units walk/walk2/acc)
/// arrays of exactly 3 scalars from the menu: get_by_index for every index 0..=4, array_length, array_values length
#[kani::proof]
#[kani::unwind(40)]
#[kani::stub(crate::parser::parse_value, no_text)]
fn kb_get_by_index3() {
    let a = [any_sc(), any_sc(), any_sc()];
    let doc = layout_array(&[a[0].it, a[1].it, a[2].it]);
    let idx: usize = kani::any();
    kani::assume(idx <= 4);
    let got = get_by_index(doc.as_slice(), idx);
    if idx < 3 {
        let want = a[idx].it.doc();
        assert!(opt_eq(&got, Some(&want)));
    } else {
        assert!(got.is_none());
    }
    assert!(array_length(doc.as_slice()) == Some(3));
}

/// objects with exactly 2 members (keys: sorted distinct ASCII strings of 1..=2 bytes, values: scalars from the menu):
/// get_by_name exact and ignore-case against the member list
#[kani::proof]
#[kani::unwind(40)]
#[kani::stub(crate::parser::parse_value, no_text)]
fn kb_get_by_name2() {
    let k = [any_key(2), any_key(2)];
    kani::assume(k[0].plen >= 1 && k[1].plen >= 1 && key_lt(&k[0], &k[1]));
    let v = [any_sc(), any_sc()];
    let doc = layout_object(&[k[0], k[1]], &[v[0].it, v[1].it]);
    // the name looked up: one of the keys, possibly with the case of its first byte flipped, or a fresh string
    let name_it = any_key(2);
    kani::assume(name_it.plen >= 1);
    let name = std::str::from_utf8(name_it.payload()).unwrap();
    let ic: bool = kani::any();
    let eq = |a: &It, b: &It| a.plen == b.plen && a.pay[0] == b.pay[0] && (a.plen < 2 || a.pay[1] == b.pay[1]);
    let lower = |c: u8| if c >= b'A' && c <= b'Z' { c + 32 } else { c };
    let eq_ic = |a: &It, b: &It| a.plen == b.plen && lower(a.pay[0]) == lower(b.pay[0]) && (a.plen < 2 || lower(a.pay[1]) == lower(b.pay[1]));
    let want: Option<usize> = if eq(&k[0], &name_it) { Some(0) } else if eq(&k[1], &name_it) { Some(1) }
        else if ic && eq_ic(&k[0], &name_it) { Some(0) } else if ic && eq_ic(&k[1], &name_it) { Some(1) } else { None };
    let got = get_by_name(doc.as_slice(), name, ic);
    match want {
        Some(j) => { let w = v[j].it.doc(); assert!(opt_eq(&got, Some(&w))); }
        None => assert!(got.is_none()),
    }
    kani::cover!(want == Some(1) && ic && !eq(&k[1], &name_it));
}
