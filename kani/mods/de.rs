// Injected as `#[cfg(kani)] mod verif_kani_de;` (child of crate::de). Bounded twin of Verus unit `de` (C10).
use super::*;

pub(crate) fn no_text(_buf: &[u8]) -> Result<Value<'_>, Error> {
    Err(Error::InvalidJson)
}

fn strings_ok(v: &Value) -> bool {
    // every string/key reachable within two levels is well-formed UTF-8 (re-validated from its bytes)
    match v {
        Value::String(s) => std::str::from_utf8(s.as_bytes()).is_ok(),
        Value::Array(a) => {
            let mut ok = true;
            for x in a.iter() {
                if let Value::String(s) = x { ok &= std::str::from_utf8(s.as_bytes()).is_ok(); }
            }
            ok
        }
        Value::Object(o) => {
            let mut ok = true;
            for (k, x) in o.iter() {
                ok &= std::str::from_utf8(k.as_bytes()).is_ok();
                if let Value::String(s) = x { ok &= std::str::from_utf8(s.as_bytes()).is_ok(); }
            }
            ok
        }
        _ => true,
    }
}

/// scalar documents: header 0x20000000, an ARBITRARY entry word and up to 3 payload bytes, every truncation:
/// parse_jsonb returns Ok or Err (no panic); a returned string is valid UTF-8
#[kani::proof]
#[kani::unwind(14)]
#[kani::stub(crate::parser::parse_value, no_text)]
fn kb_decode_scalar11() {
    let mut raw = [0u8; 11];
    raw[0] = 0x20;
    let mut i = 4;
    while i < 11 { raw[i] = kani::any(); i += 1; }
    let cut: usize = kani::any();
    kani::assume(cut <= 11);
    let r = parse_jsonb(&raw[..cut]);
    if let Ok(v) = &r {
        assert!(strings_ok(v));
    }
}

/// arrays with an ARBITRARY count in the header byte 3 (0..=255), two arbitrary entry words and 3 payload bytes, every truncation
#[kani::proof]
#[kani::unwind(18)]
#[kani::stub(crate::parser::parse_value, no_text)]
fn kb_decode_array15() {
    let mut raw = [0u8; 15];
    raw[0] = 0x80;
    let mut i = 3;
    while i < 15 { raw[i] = kani::any(); i += 1; }
    let cut: usize = kani::any();
    kani::assume(cut <= 15);
    let r = parse_jsonb(&raw[..cut]);
    if let Ok(v) = &r {
        assert!(strings_ok(v));
    }
}

/// objects with 2 members whose 4 entry words and 2 key bytes are arbitrary: keys of a returned object are valid UTF-8
/// (this is the place where adjacent keys share one byte area)
#[kani::proof]
#[kani::unwind(24)]
#[kani::stub(crate::parser::parse_value, no_text)]
fn kb_decode_object_keys() {
    let mut raw = [0u8; 22];
    raw[0] = 0x40; raw[3] = 2;
    let mut i = 4;
    while i < 22 { raw[i] = kani::any(); i += 1; }
    let r = parse_jsonb(&raw);
    if let Ok(v) = &r {
        assert!(strings_ok(v));
    }
}

fn decode_must_not_run<'a>(_d: &mut Decoder<'a>) -> Result<Value<'a>, Error>
where
    'a: 'a,
{
    panic!("the binary decoder was run on input that does not start with a JSONB header byte")
}

/// text that does not start with a JSONB header byte is handed to the text parser, never to the binary decoder
/// (the decoder is stubbed to panic, the text parser to fail): all 8-byte inputs
#[kani::proof]
#[kani::stub(crate::parser::parse_value, no_text)]
#[kani::stub(Decoder::decode, decode_must_not_run)]
fn kb_from_slice_text_not_binary() {
    let raw: [u8; 8] = kani::any();
    kani::assume(raw[0] != 0x20 && raw[0] != 0x40 && raw[0] != 0x80);
    assert!(from_slice(&raw).is_err());
}

use crate::verif_kani_spec::*;

/// C01 round trip on scalar documents (null/bool, Int64/UInt64 small, Float64 1..4, strings of 0..2 ASCII bytes):
/// decode(doc) is Ok, re-encoding gives the identical bytes, every proper prefix is rejected
#[kani::proof]
#[kani::unwind(24)]
#[kani::stub(crate::parser::parse_value, no_text)]
fn kb_roundtrip_scalar() {
    let k: u8 = kani::any();
    kani::assume(k < 5);
    let s = match k { 0 => sc_w0(), 1 => sc_num2(), 2 => sc_float9(), 3 => sc_str1(), _ => sc_str2() };
    let doc = layout_scalar(&s.it);
    let r = parse_jsonb(doc.as_slice());
    assert!(r.is_ok());
    let back = r.unwrap().to_vec();
    assert!(doc.eq_slice(back.as_slice()));
    let cut: usize = kani::any();
    kani::assume(cut < doc.n);
    assert!(parse_jsonb(&doc.b[..cut]).is_err());
}
