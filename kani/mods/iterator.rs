// Injected as `#[cfg(kani)] mod verif_kani_iterator;` (child of crate::iterator).
use super::*;

/// [K leaf] the private read_u32 of iterator.rs against its injected contract
#[kani::proof_for_contract(read_u32)]
fn leaf_read_u32_iterator() {
    let raw: [u8; 12] = kani::any();
    let len: usize = kani::any();
    kani::assume(len <= 12);
    let idx: usize = kani::any();
    let _ = read_u32(&raw[..len], idx);
}
