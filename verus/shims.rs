// ===========================================================================
// TRUSTED EDGES: specifications of std / byteorder / nom that the extracted
// code calls.  Every `external_body` / `assume_specification` / `uninterp` in
// this file is an ASSUMPTION and is listed in the evidence (trusted_base).
// Those marked [K] are checked on the real code by a Kani harness.
// ===========================================================================

// [trusted] UTF-8 well-formedness is uninterpreted: established only by from_utf8 == Ok
pub uninterp spec fn is_utf8(s: Seq<u8>) -> bool;

#[verifier::external_type_specification]
#[verifier::external_body]
pub struct ExUtf8Error(std::str::Utf8Error);

// bytes of a str / String (uninterpreted views; related to byte slices only through the specs below)
pub uninterp spec fn str_bytes(s: &str) -> Seq<u8>;
pub uninterp spec fn string_bytes(s: String) -> Seq<u8>;
pub open spec fn cow_bytes(c: Cow<'_, str>) -> Seq<u8> {
    match c { Cow::Borrowed(s) => str_bytes(s), Cow::Owned(s) => string_bytes(s) }
}

pub assume_specification<'a> [std::str::from_utf8] (b: &'a [u8]) -> (r: Result<&'a str, std::str::Utf8Error>)
    ensures r is Ok <==> is_utf8(b@), r is Ok ==> str_bytes(r.unwrap()) == b@;

// R9 drops `unsafe`; the safety condition of from_utf8_unchecked becomes a proof obligation
pub assume_specification<'a> [std::str::from_utf8_unchecked] (b: &'a [u8]) -> (r: &'a str)
    requires is_utf8(b@)
    ensures str_bytes(r) == b@;

pub assume_specification [i32::abs] (x: i32) -> (r: i32)
    requires x != i32::MIN
    ensures r == (if x < 0 { -x } else { x as int });

pub assume_specification [i32::unsigned_abs] (x: i32) -> (r: u32)
    ensures r == (if x < 0 { -(x as int) } else { x as int });

// R7 targets
pub fn vx_assert(c: bool)
    requires c
{}

#[verifier::external_body]
pub fn vx_unreachable() -> !
    requires false
{ unreachable!() }

// R3 targets: big-endian byte conversions [K: leaf harness be_bytes]
pub trait VxToBe { type Out; fn vx_to_be_bytes(self) -> Self::Out; }
impl VxToBe for u32 { type Out = [u8; 4];
    #[verifier::external_body]
    fn vx_to_be_bytes(self) -> (r: [u8; 4])
        ensures r@ == be32_bytes(self)
    { self.to_be_bytes() }
}

pub open spec fn be_bytes_u64(w: u64) -> Seq<u8> {
    seq![(w >> 56) as u8, ((w >> 48) & 0xff) as u8, ((w >> 40) & 0xff) as u8, ((w >> 32) & 0xff) as u8,
         ((w >> 24) & 0xff) as u8, ((w >> 16) & 0xff) as u8, ((w >> 8) & 0xff) as u8, (w & 0xff) as u8]
}
impl VxToBe for u64 { type Out = [u8; 8];
    #[verifier::external_body]
    fn vx_to_be_bytes(self) -> (r: [u8; 8])
        ensures r@ == be_bytes_u64(self)
    { self.to_be_bytes() }
}

// byteorder [K: leaf harness byteorder_rw]
#[derive(Debug)]
pub struct IoError;
pub struct BigEndian;
pub trait WriteBytesExt { fn write_u32<T>(&mut self, n: u32) -> Result<(), IoError>; }
impl WriteBytesExt for Vec<u8> {
    #[verifier::external_body]
    fn write_u32<T>(&mut self, n: u32) -> (r: Result<(), IoError>)
        ensures r is Ok, final(self)@ == old(self)@ + be32_bytes(n)
    { unimplemented!() }
}
pub trait ReadBytesExt { fn read_u32<T>(&mut self) -> Result<u32, IoError>; }
impl ReadBytesExt for &[u8] {
    #[verifier::external_body]
    fn read_u32<T>(&mut self) -> (r: Result<u32, IoError>)
        ensures old(self)@.len() >= 4 ==> r == Ok::<u32, IoError>(be32(old(self)@, 0)) && final(self)@ == old(self)@.subrange(4, old(self)@.len() as int),
                old(self)@.len() < 4 ==> r is Err && final(self)@ == old(self)@,
    { unimplemented!() }
}
