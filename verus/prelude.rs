// ===========================================================================
// Spec library written from README.md ("Encoding format"), NOT from the code.
// Included verbatim at the top of every generated Verus file.
// ===========================================================================

global size_of usize == 8;

// ---- header / entry word fields, exactly as printed in the README ----------
pub open spec fn hdr_type(h: u32) -> u32 { h & 0xE000_0000u32 }      // 3 bits: scalar / object / array
pub open spec fn hdr_count(h: u32) -> nat { (h & 0x1FFF_FFFFu32) as nat } // 29 bits: number of JEntries
pub open spec fn je_type(e: u32) -> u32 { e & 0x7000_0000u32 }       // 3 bits of value type
pub open spec fn je_len(e: u32) -> nat { (e & 0x0FFF_FFFFu32) as nat }  // 28 bits of length

pub spec const SP_SCALAR: u32 = 0x2000_0000u32;
pub spec const SP_OBJECT: u32 = 0x4000_0000u32;
pub spec const SP_ARRAY:  u32 = 0x8000_0000u32;

pub spec const SP_NULL:      u32 = 0x0000_0000u32;
pub spec const SP_STRING:    u32 = 0x1000_0000u32;
pub spec const SP_NUMBER:    u32 = 0x2000_0000u32;
pub spec const SP_FALSE:     u32 = 0x3000_0000u32;
pub spec const SP_TRUE:      u32 = 0x4000_0000u32;
pub spec const SP_CONTAINER: u32 = 0x5000_0000u32;

// ---- big-endian words ------------------------------------------------------
pub open spec fn be32(s: Seq<u8>, i: int) -> u32 {
    ((s[i] as u32) << 24 | (s[i + 1] as u32) << 16 | (s[i + 2] as u32) << 8 | (s[i + 3] as u32)) as u32
}

pub open spec fn be32_bytes(w: u32) -> Seq<u8> {
    seq![(w >> 24) as u8, ((w >> 16) & 0xff) as u8, ((w >> 8) & 0xff) as u8, (w & 0xff) as u8]
}

pub proof fn lemma_be32_of_bytes(w: u32)
    ensures be32(be32_bytes(w), 0) == w, be32_bytes(w).len() == 4
{
    let b = be32_bytes(w);
    assert(b[0] == (w >> 24) as u8);
    assert(b[1] == ((w >> 16) & 0xff) as u8);
    assert(b[2] == ((w >> 8) & 0xff) as u8);
    assert(b[3] == (w & 0xff) as u8);
    assert(((((w >> 24) as u8) as u32) << 24 | ((((w >> 16) & 0xff) as u8) as u32) << 16
        | ((((w >> 8) & 0xff) as u8) as u32) << 8 | (((w & 0xff) as u8) as u32)) == w) by (bit_vector);
}

pub proof fn lemma_be32_window(s: Seq<u8>, i: int, t: Seq<u8>, j: int)
    requires 0 <= i, i + 4 <= s.len(), 0 <= j, j + 4 <= t.len(),
        s[i] == t[j], s[i + 1] == t[j + 1], s[i + 2] == t[j + 2], s[i + 3] == t[j + 3],
    ensures be32(s, i) == be32(t, j)
{}

// ---- prefix sums of entry lengths: what every walker in the code recomputes --
// sum of the lengths of the first k entry words of the table starting at `tab`
pub open spec fn tab_sum(s: Seq<u8>, tab: int, k: nat) -> nat
    decreases k
{
    if k == 0 { 0 } else { tab_sum(s, tab, (k - 1) as nat) + je_len(be32(s, tab + 4 * (k - 1))) }
}

pub proof fn lemma_tab_sum_mono(s: Seq<u8>, tab: int, a: nat, b: nat)
    requires a <= b
    ensures tab_sum(s, tab, a) <= tab_sum(s, tab, b)
    decreases b - a
{
    if a < b { lemma_tab_sum_mono(s, tab, a, (b - 1) as nat); }
}

pub proof fn lemma_tab_sum_step(s: Seq<u8>, tab: int, k: nat)
    ensures tab_sum(s, tab, k + 1) == tab_sum(s, tab, k) + je_len(be32(s, tab + 4 * k))
{
    reveal_with_fuel(tab_sum, 2);
}

// tab_sum only depends on the table bytes
pub proof fn lemma_tab_sum_ext(s: Seq<u8>, tab: int, t: Seq<u8>, tab2: int, k: nat)
    requires 0 <= tab, 0 <= tab2, tab + 4 * k <= s.len(), tab2 + 4 * k <= t.len(),
        forall|j: int| #![trigger s[j]] tab <= j < tab + 4 * k ==> s[j] == t[j - tab + tab2],
    ensures tab_sum(s, tab, k) == tab_sum(t, tab2, k)
    decreases k
{
    if k > 0 {
        lemma_tab_sum_ext(s, tab, t, tab2, (k - 1) as nat);
        let o = 4 * (k - 1);
        assert(s[tab + o] == t[tab2 + o]);
        assert(s[tab + o + 1] == t[tab2 + o + 1]);
        assert(s[tab + o + 2] == t[tab2 + o + 2]);
        assert(s[tab + o + 3] == t[tab2 + o + 3]);
        lemma_be32_window(s, tab + o, t, tab2 + o);
    }
}

// ---- one container laid out inside a buffer ---------------------------------
// `off` = position of the header; n = number of entry words (count for arrays,
// 2*count for objects, 1 for scalars); the payload area follows the table.
pub open spec fn entries_of(h: u32) -> nat {
    if hdr_type(h) == SP_OBJECT { 2 * hdr_count(h) } else if hdr_type(h) == SP_ARRAY { hdr_count(h) } else { 1 }
}

// the table and all payloads of the container at `off` lie inside s
pub open spec fn wf_at(s: Seq<u8>, off: int) -> bool {
    &&& 0 <= off
    &&& off + 4 <= s.len()
    &&& off + 4 + 4 * entries_of(be32(s, off)) + tab_sum(s, off + 4, entries_of(be32(s, off))) <= s.len()
}

// total byte length of the container at `off`
pub open spec fn cont_len(s: Seq<u8>, off: int) -> nat {
    (4 + 4 * entries_of(be32(s, off)) + tab_sum(s, off + 4, entries_of(be32(s, off)))) as nat
}

// ---- README layout as a function: header ‖ entry words ‖ payloads ----------
pub struct Item { pub word: u32, pub payload: Seq<u8> }

pub open spec fn words_of(items: Seq<Item>) -> Seq<u8>
    decreases items.len()
{
    if items.len() == 0 { Seq::<u8>::empty() } else { words_of(items.drop_last()) + be32_bytes(items.last().word) }
}

pub open spec fn payloads_of(items: Seq<Item>) -> Seq<u8>
    decreases items.len()
{
    if items.len() == 0 { Seq::<u8>::empty() } else { payloads_of(items.drop_last()) + items.last().payload }
}

pub open spec fn layout_array(items: Seq<Item>) -> Seq<u8> {
    be32_bytes((SP_ARRAY | (items.len() as u32)) as u32) + words_of(items) + payloads_of(items)
}

pub open spec fn layout_scalar(it: Item) -> Seq<u8> {
    be32_bytes(SP_SCALAR) + be32_bytes(it.word) + it.payload
}

// keys[i] is the i-th key (a STRING item), vals[i] its value
pub open spec fn layout_object(keys: Seq<Item>, vals: Seq<Item>) -> Seq<u8> {
    be32_bytes((SP_OBJECT | (keys.len() as u32)) as u32) + words_of(keys) + words_of(vals) + payloads_of(keys) + payloads_of(vals)
}

pub proof fn lemma_words_len(items: Seq<Item>)
    ensures words_of(items).len() == 4 * items.len()
    decreases items.len()
{
    if items.len() > 0 { lemma_words_len(items.drop_last()); }
}

pub proof fn lemma_words_push(items: Seq<Item>, it: Item)
    ensures words_of(items.push(it)) == words_of(items) + be32_bytes(it.word),
            payloads_of(items.push(it)) == payloads_of(items) + it.payload,
{
    assert(items.push(it).drop_last() == items);
}

// ---- misc -------------------------------------------------------------------
pub open spec fn spec_is_jsonb(s: Seq<u8>) -> bool {
    s.len() > 0 && (s[0] == 0x80u8 || s[0] == 0x40u8 || s[0] == 0x20u8)
}
